package rules

import (
	"fmt"
	"go/token"
	"go/types"
	"strings"

	"golang.org/x/tools/go/ssa"

	"verif/checker/core"
)

func init() {
	register(&Property{
		ID: "C07",
		Rules: []Rule{
			{"C07/R1", ruleC07R1},
			{"C07/R2", ruleC07R2},
			{"C07/R3", ruleC07R3},
			{"C07/R4", ruleC07R4},
			{"C07/order", ruleC07Order},
			{"C07/complement", ruleC07Complement},
			{"C07/records", ruleC07Records},
		},
		Explanation: "Decides the shape of annotation flow in the evaluator for all schemas and instances at once: (R1) at every recursive evaluation site the annotations argument is the frame's own collector iff the instance argument is the evaluator's own instance location and the schema is not `not`; child locations and `not` pass nil; the in-place/child class of the schema field agrees with the instance location; (R2) the caller's collector is written only through one merge of the frame's collector, after which only the success epilogue can execute; (R3) merge reads and writes every field of the annotation record; (R4) the collector is a per-activation variable; (order) no in-place evaluation is reachable after an application of unevaluatedItems/unevaluatedProperties except in a kind-exclusive region; (complement) unevaluated* is applied only where the merged record says not-evaluated. It does NOT decide that each keyword records the right indexes and names, nor the verdict of any concrete case.",
		NotDecided:  []string{"that prefixItems/contains/properties record the right indexes and names", "the verdict of any concrete schema/instance pair"},
	})
}

// expected class of a schema source for the in-place / child split
func (c *Ctx) srcClass(src string) string {
	switch src {
	case "resolvedInfo.resolvedRef", "resolvedInfo.resolvedDynamicRef", "anchorInfo.schema":
		return "applicator-inplace" // $ref / $dynamicRef hops evaluate the same instance location
	case "resolvedInfo.patternProperties":
		return "applicator-child"
	}
	// any other *Schema field of the side table that is filled only with results of the reference resolver is a reference hop
	if strings.HasPrefix(src, "resolvedInfo.") {
		if rm := c.resolverModel("C07/R1"); rm != nil {
			field := strings.TrimPrefix(src, "resolvedInfo.")
			n, ok := 0, true
			for _, fn := range c.P.Funcs {
				core.EachInstr(fn, func(i ssa.Instruction) {
					st, isSt := i.(*ssa.Store)
					if !isSt {
						return
					}
					fa, isFa := st.Addr.(*ssa.FieldAddr)
					if !isFa || c.fieldName(fa.X.Type(), fa.Field) != "resolvedInfo."+field {
						return
					}
					n++
					ex, isEx := st.Val.(*ssa.Extract)
					if !isEx || ex.Index != 0 {
						ok = false
						return
					}
					if call, isCall := ex.Tuple.(*ssa.Call); !isCall || call.Call.StaticCallee() != rm.refFn {
						ok = false
					}
				})
			}
			if n > 0 && ok {
				return "applicator-inplace"
			}
		}
	}
	if strings.HasPrefix(src, "Schema.") {
		return fieldClass[strings.TrimPrefix(src, "Schema.")]
	}
	return ""
}

func ruleC07R1(c *Ctx) {
	const rule = "C07/R1"
	m := c.EvalModel(rule)
	if m == nil {
		return
	}
	for _, p := range m.problems {
		c.R.Unknown(rule, "model:"+p, "", p)
	}
	seenKeys := map[string]int{}
	for _, s := range m.Sites {
		key := s.key()
		seenKeys[key]++
		if seenKeys[key] > 1 {
			key = fmt.Sprintf("%s#%d", key, seenKeys[key])
		}
		pos := c.pos(s.siteInstr())
		if s.Loc == "?" {
			c.R.Unknown(rule, key, pos, "cannot classify the instance argument as the evaluator's own location or a child location")
			continue
		}
		classes := map[string]bool{}
		isNot := false
		unknownSrc := ""
		for _, src := range s.SchemaSrc {
			cl := c.srcClass(src)
			if cl == "" {
				unknownSrc = src
			}
			classes[cl] = true
			if src == "Schema.Not" {
				isNot = true
			}
		}
		if unknownSrc != "" || len(s.SchemaSrc) == 0 {
			c.R.Unknown(rule, key, pos, fmt.Sprintf("the schema argument does not come from a classified schema-bearing field (sources %v)", s.SchemaSrc))
			continue
		}
		if len(classes) != 1 {
			c.R.Bad(rule, key, pos, fmt.Sprintf("the schema argument mixes in-place and child applicators (sources %v)", s.SchemaSrc))
			continue
		}
		if isNot && len(s.SchemaSrc) > 1 {
			c.R.Bad(rule, key, pos, fmt.Sprintf("`not` shares an evaluation site with other keywords (%v); its annotations must be dropped separately", s.SchemaSrc))
			continue
		}
		// one evaluation site applies one keyword, unless its sources are alternatives of which only one can be
		// selected (then/else by the verdict of `if`; the lexical target, the dynamic-scope hit and the lexical
		// fallback of one $dynamicRef): a site that picks "the $ref target, or else the $dynamicRef target"
		// drops one of two keywords that can both be present
		if len(s.SchemaSrc) > 1 && s.Loc != "child" {
			groups := [][]string{
				{"Schema.Then", "Schema.Else"},
				{"resolvedInfo.resolvedDynamicRef", "anchorInfo.schema", "resolvedInfo.dynamicRefFallback"},
				{"Schema.Items", "Schema.AdditionalItems"}, // draft-07 single-schema items vs the tail after array-form items
			}
			okAlt := false
			// keywords of different drafts never apply to the same schema (C02/draft-keywords-gated decides the gating)
			{
				drafts := map[string]bool{}
				allDraftOnly := true
				for _, src := range s.SchemaSrc {
					if d, ok := draftOnlyFields[src]; ok {
						drafts[d] = true
					} else {
						allDraftOnly = false
					}
				}
				if allDraftOnly && len(drafts) == len(s.SchemaSrc) {
					okAlt = true
				}
			}
			for _, g := range groups {
				all := true
				for _, src := range s.SchemaSrc {
					in := false
					for _, x := range g {
						if x == src {
							in = true
						}
					}
					if !in {
						all = false
					}
				}
				if all {
					okAlt = true
				}
			}
			if !okAlt {
				c.R.Bad(rule, key, pos, fmt.Sprintf("one evaluation site chooses between the subschemas of different keywords (%v) that can be present together: whichever is not chosen is never applied", s.SchemaSrc))
				continue
			}
		}
		var class string
		for k := range classes {
			class = k
		}
		want := ""
		switch {
		case s.Loc == "same" && class == "applicator-inplace" && isNot:
			want = "nil"
		case s.Loc == "same" && class == "applicator-inplace":
			want = "frame"
		case s.Loc == "child" && class == "applicator-child":
			want = "nil"
		case s.Loc == "same":
			c.R.Bad(rule, key, pos, fmt.Sprintf("%v is an applicator for child instance locations but is evaluated against the evaluator's own instance", s.SchemaSrc))
			continue
		default:
			c.R.Bad(rule, key, pos, fmt.Sprintf("%v is an in-place applicator but is evaluated against a child instance location", s.SchemaSrc))
			continue
		}
		if s.AnnsKind == want {
			c.R.OK(rule, key, pos, fmt.Sprintf("instance=%s schema=%v annotations=%s", s.Loc, s.SchemaSrc, s.AnnsKind))
		} else {
			why := map[string]string{
				"frame": "an in-place applicator at the same instance location must collect into the frame's annotations (otherwise unevaluated* cannot see what it evaluated)",
				"nil":   "evaluations at a child location, or under `not`, must not be visible to unevaluated* of this location: the annotations argument must be nil",
			}[want]
			c.R.Bad(rule, key, pos, fmt.Sprintf("recursive evaluation of %v at the %s instance location passes annotations=%s, expected %s: %s", s.SchemaSrc, s.Loc, s.AnnsKind, want, why))
		}
	}
	c.R.Floor(rule, "recursive evaluation sites", len(m.Sites), 16)
	// coverage: every schema-bearing applicator field of Schema is evaluated at some site
	covered := map[string]bool{}
	for _, s := range m.Sites {
		for _, src := range s.SchemaSrc {
			covered[src] = true
		}
	}
	for _, f := range c.SchemaFields(rule) {
		if (f.Class == "applicator-inplace" || f.Class == "applicator-child") && (f.Shape == "schema" || f.Shape == "slice" || f.Shape == "map") {
			src := "Schema." + f.Name
			if f.Name == "PatternProperties" {
				src = "resolvedInfo.patternProperties"
			}
			if f.Name == "Ref" || f.Name == "DynamicRef" {
				continue
			}
			c.R.Check(covered[src], rule, "coverage:"+f.Name, c.P.Pos(f.Var.Pos()), "evaluated at a recursive evaluation site", "no recursive evaluation site applies the subschemas of "+f.Name)
		}
	}
}

// frameAnnsBase reports whether the address is (a field of) the frame's annotations variable.
func (m *evalModel) isFrameAnns(v ssa.Value) bool {
	if fa, ok := v.(*ssa.FieldAddr); ok {
		v = fa.X
	}
	if m.frameAnns == nil {
		return false
	}
	if resolveCell(v) == m.frameAnns {
		return true
	}
	// the record handed to a transparent helper: a parameter that is the frame's record at every call site
	for depth := 0; depth < 3; depth++ {
		// a parameter captured by a closure (the receiver of an iterator constructor) is read through its cell
		if ld, isLd := v.(*ssa.UnOp); isLd && ld.Op == token.MUL {
			if cell := resolveCell(ld.X); cell != nil && cell != m.frameAnns {
				stores := cellStores(cell)
				if len(stores) == 1 {
					if sp, isP := stores[0].(*ssa.Parameter); isP {
						v = sp
					}
				}
			}
		}
		p, ok := v.(*ssa.Parameter)
		if !ok || curCtx == nil || p.Parent() == m.E {
			return false
		}
		// (the methods of the record are role anchors, not transparent helpers; their receiver is still what the callers pass)
		isRecordMethod := p.Parent().Signature.Recv() != nil && len(p.Parent().Params) > 0 && p.Parent().Params[0] == p &&
			curCtx.isPkgNamed(p.Type(), "annotations") && curCtx.P.OnlyStaticCallers(p.Parent())
		if !curCtx.transparent(p.Parent()) && !isRecordMethod {
			return false
		}
		args := curCtx.P.ArgsFor(p)
		if len(args) == 0 {
			return false
		}
		var next ssa.Value
		for _, a := range args {
			if resolveCell(a) == m.frameAnns {
				continue
			}
			if _, isP := a.(*ssa.Parameter); isP && (next == nil || next == a) {
				next = a
				continue
			}
			return false
		}
		if next == nil {
			return true
		}
		v = next
	}
	return false
}

func ruleC07R2(c *Ctx) {
	const rule = "C07/R2"
	m := c.EvalModel(rule)
	if m == nil || m.annsParam == nil {
		return
	}
	mergeFn := c.P.MethodOf("annotations", "merge")
	// uses of the caller's annotations parameter
	var merges []*ssa.Call
	mergeSrc := map[*ssa.Call]ssa.Value{}
	bad := false
	var uses []ssa.Instruction
	collect := func(v ssa.Value) {
		if refs := v.Referrers(); refs != nil {
			uses = append(uses, (*refs)...)
		}
	}
	collect(m.annsParam)
	// if spilled to a cell, follow the loads
	for _, u := range append([]ssa.Instruction(nil), uses...) {
		if st, ok := u.(*ssa.Store); ok && st.Val == m.annsParam {
			if a, ok := st.Addr.(*ssa.Alloc); ok {
				for _, fn := range m.Nest {
					core.EachInstr(fn, func(i ssa.Instruction) {
						if ld, ok := i.(*ssa.UnOp); ok && ld.Op == token.MUL && resolveCell(ld.X) == a {
							collect(ld)
						}
					})
				}
			}
		}
	}
	for _, u := range uses {
		switch x := u.(type) {
		case *ssa.DebugRef:
		case *ssa.BinOp:
			// comparison with nil
		case *ssa.Store:
			if x.Val == m.annsParam {
				if _, ok := x.Addr.(*ssa.Alloc); ok {
					continue
				}
			}
			bad = true
			c.R.Bad(rule, "caller-annotations:stored", c.pos(x), "the caller's annotations pointer is stored; it may only be merged into once, on success")
		case *ssa.Call:
			callee := x.Call.StaticCallee()
			if callee != nil && callee == mergeFn && len(x.Call.Args) == 2 && isParamOrLoad(x.Call.Args[0], m.annsParam) {
				merges = append(merges, x)
				mergeSrc[x] = x.Call.Args[1]
				continue
			}
			// a helper that does the hand-over and nothing else
			handed := false
			for pi, a := range x.Call.Args {
				if isParamOrLoad(a, m.annsParam) {
					if si, ok := c.handOverHelper(callee, pi); ok && si < len(x.Call.Args) {
						merges = append(merges, x)
						mergeSrc[x] = x.Call.Args[si]
						handed = true
					}
				}
			}
			if handed {
				continue
			}
			bad = true
			c.R.Bad(rule, "caller-annotations:passed:"+core.CalleeKey(&x.Call), c.pos(x), fmt.Sprintf("the caller's annotations pointer is passed to %s; annotations of a subschema that may still fail would become visible to the caller", core.CalleeKey(&x.Call)))
		case *ssa.FieldAddr:
			bad = true
			c.R.Bad(rule, "caller-annotations:field-access", c.pos(x), "a field of the caller's annotations is accessed directly in the evaluator; the caller's record may only be updated by the final merge")
		default:
			bad = true
			c.R.Bad(rule, fmt.Sprintf("caller-annotations:use:%T", u), c.pos(u), "unexpected use of the caller's annotations pointer")
		}
	}
	if len(merges) != 1 {
		c.R.Bad(rule, "caller-annotations:merge-count", c.P.Pos(m.E.Pos()), fmt.Sprintf("expected exactly one merge of the frame's annotations into the caller's, found %d", len(merges)))
		return
	}
	mg := merges[0]
	// the merge is part of the success path of the evaluator itself, not of a function it defers (which also runs
	// when the schema fails)
	deferred := false
	for f := mg.Parent(); f != nil && f != m.E; f = f.Parent() {
		core.EachInstr(f.Parent(), func(i ssa.Instruction) {
			if d, ok := i.(*ssa.Defer); ok {
				for _, src := range append(traceSources(d.Call.Value), d.Call.Value) {
					if mc, ok := src.(*ssa.MakeClosure); ok && mc.Fn == ssa.Value(f) {
						deferred = true
					}
				}
			}
		})
	}
	c.R.Check(!deferred, rule, "merge:not-deferred", c.pos(mg), "the merge into the caller's record is not made by a deferred function", "the frame's annotations are merged into the caller's by a deferred function, which runs on every exit: the evaluations of a schema that fails (a failing branch of anyOf, a failing `if`) become visible to the caller, and unevaluated* no longer applies to what they covered")
	c.R.Check(m.isFrameAnns(mergeSrc[mg]), rule, "merge:source-is-frame", c.pos(mg), "the merged record is the frame's own collector", "the record merged into the caller's annotations is not the frame's collector")
	// after the merge only the success epilogue may run
	okEpilogue := true
	var offending ssa.Instruction
	seen := map[*ssa.BasicBlock]bool{}
	var visit func(b *ssa.BasicBlock, from int)
	visit = func(b *ssa.BasicBlock, from int) {
		for _, i := range b.Instrs[from:] {
			switch x := i.(type) {
			case *ssa.RunDefers, *ssa.Return, *ssa.Jump, *ssa.DebugRef:
			case *ssa.UnOp:
				if x.Op != token.MUL {
					okEpilogue, offending = false, i
				}
			case *ssa.Store:
				k, isConst := x.Val.(*ssa.Const)
				if !isConst || !k.IsNil() {
					okEpilogue, offending = false, i
				}
			default:
				okEpilogue, offending = false, i
			}
		}
		for _, s := range b.Succs {
			if !seen[s] {
				seen[s] = true
				visit(s, 0)
			}
		}
	}
	idx := 0
	for k, i := range mg.Block().Instrs {
		if i == mg {
			idx = k + 1
		}
	}
	visit(mg.Block(), idx)
	if okEpilogue {
		c.R.OK(rule, "merge:success-only", c.pos(mg), "after the merge only `return nil` (store of nil to the result, deferred calls, return) can execute: a failing subschema never hands annotations to its caller")
	} else {
		c.R.Bad(rule, "merge:success-only", c.pos(offending), "code that can still fail or branch executes after the frame's annotations were merged into the caller's; annotations of a failed subschema would leak")
	}
	// the hand-over is conditional on nothing but the caller wanting it (callerAnns != nil): every success exit that
	// was asked for annotations delivers them, whatever else is known about the schema (a "nobody uses annotations"
	// flag computed per document is wrong as soon as another document does)
	var extra []string
	for _, g := range skipGuards(mg) {
		if x, k, _, ok := eqConst(g); ok && k.IsNil() && isParamOrLoad(x, m.annsParam) {
			continue
		}
		if isErrNilTest(g.Cond) {
			continue
		}
		extra = append(extra, c.pos(g.At))
	}
	c.R.Check(len(extra) == 0, rule, "merge:unconditional-on-success", c.pos(mg), "on success the frame's annotations are handed to every caller that asked for them", fmt.Sprintf("the hand-over of the frame's annotations to the caller can be skipped under further conditions (guards at %v): what this schema evaluated is then invisible to the caller's unevaluatedProperties/unevaluatedItems", extra))
	// every return on a failure path precedes the merge: all other returns are not reachable from the merge (checked above); and the merge is not inside a loop
	c.R.Check(!core.Reachable(mg.Block(), mg.Block(), nil), rule, "merge:once", c.pos(mg), "the merge is not in a loop", "the merge can execute more than once per activation")
	_ = bad
}

func isParamOrLoad(v ssa.Value, p *ssa.Parameter) bool {
	if v == p {
		return true
	}
	for _, s := range traceSources(v) {
		if s == p {
			return true
		}
	}
	return false
}

func ruleC07R3(c *Ctx) {
	const rule = "C07/R3"
	mergeFn := c.P.MethodOf("annotations", "merge")
	st := c.P.Struct("annotations")
	if mergeFn == nil || st == nil || len(mergeFn.Params) != 2 {
		c.R.Unresolved(rule, "(*annotations).merge")
		return
	}
	dst, src := mergeFn.Params[0], mergeFn.Params[1]
	fi := core.Info(mergeFn)
	for k := 0; k < st.NumFields(); k++ {
		f := st.Field(k)
		var srcLoads []ssa.Value
		var dstStores []*ssa.Store
		core.EachInstr(mergeFn, func(i ssa.Instruction) {
			switch x := i.(type) {
			case *ssa.UnOp:
				if fa, ok := x.X.(*ssa.FieldAddr); ok && x.Op == token.MUL && fa.Field == k && isParamOrLoad(fa.X, src) {
					srcLoads = append(srcLoads, x)
				}
			case *ssa.Store:
				if fa, ok := x.Addr.(*ssa.FieldAddr); ok && fa.Field == k && isParamOrLoad(fa.X, dst) {
					dstStores = append(dstStores, x)
				}
			}
		})
		ok := false
		for _, s := range dstStores {
			if dependsOn(s.Val, srcLoads, 6) {
				ok = true
			}
			for _, br := range fi.DomGuards(s.Block()) {
				if cond, _ := br.Cond(); cond != nil && dependsOn(cond, srcLoads, 6) {
					ok = true
				}
			}
		}
		// or through a method of the record applied to the destination with the source's field as argument
		if !ok {
			core.EachInstr(mergeFn, func(i ssa.Instruction) {
				call, isCall := i.(*ssa.Call)
				if !isCall {
					return
				}
				callee := call.Call.StaticCallee()
				if callee == nil || !c.P.InPkg(callee) || callee == mergeFn || len(call.Call.Args) < 2 || len(callee.Params) != len(call.Call.Args) || !isParamOrLoad(call.Call.Args[0], dst) {
					return
				}
				for j := 1; j < len(call.Call.Args); j++ {
					if !dependsOn(call.Call.Args[j], srcLoads, 6) {
						continue
					}
					pj := []ssa.Value{callee.Params[j]}
					cfi := core.Info(callee)
					core.EachInstr(callee, func(k2 ssa.Instruction) {
						st2, isSt := k2.(*ssa.Store)
						if !isSt {
							return
						}
						fa, isFa := st2.Addr.(*ssa.FieldAddr)
						if !isFa || fa.Field != k || !isParamOrLoad(fa.X, callee.Params[0]) {
							return
						}
						if dependsOn(st2.Val, pj, 6) {
							ok = true
						}
						for _, br := range cfi.DomGuards(st2.Block()) {
							if cond, _ := br.Cond(); cond != nil && dependsOn(cond, pj, 6) {
								ok = true
							}
						}
					})
				}
			})
		}
		// or through a helper given the address of the destination's field and the source's field: orBool(&a.f, b.f)
		if !ok {
			core.EachInstr(mergeFn, func(i ssa.Instruction) {
				call, isCall := i.(*ssa.Call)
				if !isCall {
					return
				}
				callee := call.Call.StaticCallee()
				if callee == nil || !c.P.InPkg(callee) || callee == mergeFn || len(callee.Params) != len(call.Call.Args) {
					return
				}
				for pi, a := range call.Call.Args {
					fa, isFA := a.(*ssa.FieldAddr)
					if !isFA || fa.Field != k || !isParamOrLoad(fa.X, dst) {
						continue
					}
					for vj, b := range call.Call.Args {
						if vj == pi || !dependsOn(b, srcLoads, 6) {
							continue
						}
						pv := []ssa.Value{callee.Params[vj]}
						cfi := core.Info(callee)
						core.EachInstr(callee, func(k2 ssa.Instruction) {
							st2, isSt := k2.(*ssa.Store)
							if !isSt || st2.Addr != ssa.Value(callee.Params[pi]) {
								return
							}
							if dependsOn(st2.Val, pv, 6) {
								ok = true
							}
							for _, br := range cfi.DomGuards(st2.Block()) {
								if cond, _ := br.Cond(); cond != nil && dependsOn(cond, pv, 6) {
									ok = true
								}
							}
						})
					}
				}
			})
		}
		c.R.Check(ok, rule, "merge:"+f.Name(), c.P.Pos(f.Pos()), "the destination's "+f.Name()+" is updated from the source's "+f.Name(),
			"merge does not propagate annotations field "+f.Name()+" from the source record to the destination: evaluations recorded by an in-place subschema would be forgotten")
	}
}

// dependsOn: v is computed from one of the given values (bounded depth).
func dependsOn(v ssa.Value, srcs []ssa.Value, depth int) bool {
	for _, s := range srcs {
		if v == s {
			return true
		}
	}
	if depth == 0 {
		return false
	}
	switch x := v.(type) {
	case *ssa.BinOp:
		return dependsOn(x.X, srcs, depth-1) || dependsOn(x.Y, srcs, depth-1)
	case *ssa.UnOp:
		return dependsOn(x.X, srcs, depth-1)
	case *ssa.Phi:
		for _, e := range x.Edges {
			if dependsOn(e, srcs, depth-1) {
				return true
			}
		}
	case *ssa.Call:
		for _, a := range x.Call.Args {
			if dependsOn(a, srcs, depth-1) {
				return true
			}
		}
		// slices.ContainsFunc and friends: the result depends on what the function argument returns
		for _, r := range hofClosureResults(x) {
			if dependsOn(r, srcs, depth-1) {
				return true
			}
		}
	case *ssa.Extract:
		return dependsOn(x.Tuple, srcs, depth-1)
	case *ssa.ChangeType:
		return dependsOn(x.X, srcs, depth-1)
	case *ssa.Convert:
		return dependsOn(x.X, srcs, depth-1)
	case *ssa.MakeInterface:
		return dependsOn(x.X, srcs, depth-1)
	case *ssa.Lookup:
		return dependsOn(x.X, srcs, depth-1) || dependsOn(x.Index, srcs, depth-1)
	}
	return false
}

func ruleC07R4(c *Ctx) {
	const rule = "C07/R4"
	m := c.EvalModel(rule)
	if m == nil {
		return
	}
	if m.frameAnns == nil {
		c.R.Bad(rule, "frame-annotations", c.P.Pos(m.E.Pos()), "the evaluator has no per-activation annotations variable; annotations kept elsewhere survive a failed subschema")
		return
	}
	c.R.OK(rule, "frame-annotations", c.P.Pos(m.frameAnns.Pos()), "the collector is a variable of the evaluator's own activation (one per recursive call)")
	// every annotation-recording operation in the evaluator targets the frame's record
	n := 0
	for _, fn := range m.Nest {
		core.EachInstr(fn, func(i ssa.Instruction) {
			switch x := i.(type) {
			case *ssa.Store:
				if fa, ok := x.Addr.(*ssa.FieldAddr); ok && c.isPkgNamed(fa.X.Type(), "annotations") {
					n++
					c.R.Check(m.isFrameAnns(fa), rule, "record:"+core.FuncName(fn)+":store:"+core.CanonFieldOf(fa.X.Type(), fa.Field), c.pos(x),
						"writes the frame's record", "an annotations field other than the frame's own record is written in the evaluator")
				}
			case *ssa.Call:
				callee := x.Call.StaticCallee()
				if callee == nil || callee.Signature.Recv() == nil || !c.isPkgNamed(callee.Signature.Recv().Type(), "annotations") {
					return
				}
				if core.FuncName(callee) == "(*annotations).merge" && isParamOrLoad(x.Call.Args[0], m.annsParam) {
					return // the R2 merge
				}
				if core.FuncName(callee) == "(*annotations).merge" {
					if p, isParam := x.Call.Args[0].(*ssa.Parameter); isParam && p.Parent() == fn {
						for pi, q := range fn.Params {
							if q == p {
								if _, ok := c.handOverHelper(fn, pi); ok {
									return // the R2 merge, made by the hand-over helper
								}
							}
						}
					}
				}
				n++
				c.R.Check(m.isFrameAnns(x.Call.Args[0]), rule, "record:"+core.FuncName(fn)+":"+callee.Name(), c.pos(x),
					"records into the frame's record", "an annotation method is invoked on a record other than the frame's own")
			}
		})
	}
	c.R.Floor(rule, "annotation-recording operations in the evaluator", n, 5)
}

// instanceKindFlow computes kind facts about the evaluator's instance in fn.
func (m *evalModel) instanceKindFlow(c *Ctx, fn *ssa.Function) *kindFlow {
	subject := func(v ssa.Value) bool { return m.instLoc(c, v, map[ssa.Value]bool{}) == "same" }
	kills := func(i ssa.Instruction) bool {
		if st, ok := i.(*ssa.Store); ok && m.instCell != nil {
			return resolveCell(st.Addr) == m.instCell
		}
		return false
	}
	return KindFlow(fn, subject, kills)
}

func ruleC07Order(c *Ctx) {
	const rule = "C07/order"
	m := c.EvalModel(rule)
	if m == nil {
		return
	}
	// the instance cell must not be written by nested closures (kind facts would not survive calls)
	if m.instCell != nil {
		for _, fn := range m.Nest[1:] {
			core.EachInstr(fn, func(i ssa.Instruction) {
				if st, ok := i.(*ssa.Store); ok && resolveCell(st.Addr) == m.instCell {
					c.R.Unknown(rule, "instance-reassigned-in-closure:"+core.FuncName(fn), c.pos(i), "a nested function assigns the instance variable; kind reasoning is not modelled across such calls")
				}
			})
		}
	}
	kf := m.instanceKindFlow(c, m.E)
	// anchor instruction in E for a site (the site itself or the call that runs the closure containing it)
	anchor := func(s *evalSite) ssa.Instruction {
		ins := s.siteInstr()
		for ins.Parent() != m.E {
			// find where the enclosing closure is invoked / handed to an iterator in its parent
			fn := ins.Parent()
			var at ssa.Instruction
			core.EachInstr(fn.Parent(), func(i ssa.Instruction) {
				if call, ok := i.(ssa.CallInstruction); ok {
					for _, a := range append([]ssa.Value{call.Common().Value}, call.Common().Args...) {
						for _, src := range traceSources(a) {
							if mc, ok := src.(*ssa.MakeClosure); ok && mc.Fn == fn {
								at = i
							}
						}
					}
				}
			})
			if at == nil {
				return nil
			}
			ins = at
		}
		return ins
	}
	var uneval, inplace []*evalSite
	for _, s := range m.Sites {
		for _, src := range s.SchemaSrc {
			if src == "Schema.UnevaluatedItems" || src == "Schema.UnevaluatedProperties" {
				uneval = append(uneval, s)
			}
		}
		if s.Loc == "same" {
			inplace = append(inplace, s)
		}
	}
	c.R.Floor(rule, "unevaluated* application sites", len(uneval), 2)
	c.R.Floor(rule, "in-place evaluation sites", len(inplace), 8)
	for _, u := range uneval {
		ua := anchor(u)
		if ua == nil {
			c.R.Unknown(rule, "anchor:"+u.key(), c.pos(u.siteInstr()), "cannot locate the application site in the evaluator body")
			continue
		}
		// kinds at a site: at its anchor in the evaluator and at every helper level that leads to it
		siteKinds := func(s *evalSite, a ssa.Instruction) KindSet {
			ks := kf.At(a)
			for _, lv := range s.Levels {
				if f := lv.Parent(); f == m.E || (f.Parent() == nil && c.transparent(f)) {
					ks &= kf.At(lv)
				}
			}
			return ks
		}
		uk := siteKinds(u, ua)
		for _, p := range inplace {
			pa := anchor(p)
			if pa == nil {
				c.R.Unknown(rule, "anchor:"+p.key(), c.pos(p.siteInstr()), "cannot locate the evaluation site in the evaluator body")
				continue
			}
			construct := fmt.Sprintf("%v-before-%v", p.SchemaSrc, u.SchemaSrc)
			if !core.ReachableFromInstr(ua, pa) {
				c.R.OK(rule, construct, c.pos(pa), "the in-place evaluation cannot execute after the unevaluated* application")
				continue
			}
			pk := siteKinds(p, pa)
			if uk&pk == 0 {
				c.R.OK(rule, construct, c.pos(pa), fmt.Sprintf("reachable after the application, but kind-exclusive: application runs for instance kinds %s, this evaluation for %s", uk, pk))
				continue
			}
			c.R.Bad(rule, construct, c.pos(pa), fmt.Sprintf("in-place evaluation of %v can execute after %v was applied to the same instance (common kinds %s): what it evaluates would not be seen by the unevaluated keyword", p.SchemaSrc, u.SchemaSrc, uk&pk))
		}
	}
}

func ruleC07Complement(c *Ctx) {
	const rule = "C07/complement"
	m := c.EvalModel(rule)
	if m == nil {
		return
	}
	ann := c.P.Struct("annotations")
	if ann == nil {
		c.R.Unresolved(rule, "type annotations")
		return
	}
	// guardFieldAtoms: annotation-field atoms (field name, polarity) guarding an instruction, across the closure boundary.
	type atom struct {
		field string
		pol   bool
		kind  string // "flag" (bool load) or "member" (map lookup)
	}
	var condAtoms func(v ssa.Value, pol bool, depth int) []atom
	condAtoms = func(v ssa.Value, pol bool, depth int) []atom {
		var out []atom
		for {
			if u, ok := v.(*ssa.UnOp); ok && u.Op == token.NOT {
				v, pol = u.X, !pol
				continue
			}
			break
		}
		memberOf := func(set ssa.Value) {
			for _, s := range traceSources(set) {
				if ld, ok := s.(*ssa.UnOp); ok {
					if fa, ok := ld.X.(*ssa.FieldAddr); ok && m.isFrameAnns(fa) {
						out = append(out, atom{core.CanonFieldOf(fa.X.Type(), fa.Field), pol, "member"})
					}
				}
			}
		}
		switch x := v.(type) {
		case *ssa.UnOp:
			if fa, ok := x.X.(*ssa.FieldAddr); ok && x.Op == token.MUL && m.isFrameAnns(fa) {
				out = append(out, atom{core.CanonFieldOf(fa.X.Type(), fa.Field), pol, "flag"})
			}
		case *ssa.Lookup:
			memberOf(x.X)
		case *ssa.Extract:
			// _, ok := set[k]
			if lk, ok := x.Tuple.(*ssa.Lookup); ok && x.Index == 1 {
				memberOf(lk.X)
			}
		case *ssa.Call:
			callee := x.Call.StaticCallee()
			if callee == nil || !c.P.InPkg(callee) {
				break
			}
			// set.has(k): a package function whose result is the presence of its second argument in its first
			if len(x.Call.Args) == 2 && isMembershipFn(callee) {
				memberOf(x.Call.Args[0])
				break
			}
			// a predicate on the record (func (a *annotations) unevaluated(k) bool { return !a.all && !a.set[k] }):
			// what its result implies
			if depth > 0 && callee.Signature.Results().Len() == 1 && isBoolType(callee.Signature.Results().At(0).Type()) {
				var rets []*ssa.Return
				core.EachInstr(callee, func(i ssa.Instruction) {
					if r, ok := i.(*ssa.Return); ok {
						rets = append(rets, r)
					}
				})
				if len(rets) == 1 {
					rv := returnedValue(rets[0], 0)
					out = append(out, condAtoms(rv, pol, depth-1)...)
					for _, ga := range expandBoolPhi(rv, pol, rets[0], 0, 3) {
						out = append(out, condAtoms(ga.Cond, ga.Pol, depth-1)...)
					}
				}
			}
		}
		return out
	}
	var atomsOf func(ins ssa.Instruction) []atom
	atomsOf = func(ins ssa.Instruction) []atom {
		var out []atom
		fn := ins.Parent()
		fi := core.Info(fn)
		for _, br := range fi.DomGuards(ins.Block()) {
			cond, pol := br.Cond()
			if cond == nil {
				continue
			}
			out = append(out, condAtoms(cond, pol, 2)...)
		}
		if fn != m.E && fn.Parent() != nil {
			// add the guards of the place where this closure is run
			core.EachInstr(fn.Parent(), func(i ssa.Instruction) {
				if call, ok := i.(ssa.CallInstruction); ok {
					for _, a := range append([]ssa.Value{call.Common().Value}, call.Common().Args...) {
						for _, src := range traceSources(a) {
							if mc, ok := src.(*ssa.MakeClosure); ok && mc.Fn == fn {
								out = append(out, atomsOf(i)...)
							}
						}
					}
				}
			})
		}
		return out
	}
	has := func(as []atom, field, kind string, pol bool) bool {
		for _, a := range as {
			if a.field == field && a.kind == kind && a.pol == pol {
				return true
			}
		}
		return false
	}
	found := 0
	for _, s := range m.Sites {
		for _, src := range s.SchemaSrc {
			var flag, member string
			switch src {
			case "Schema.UnevaluatedProperties":
				flag, member = "allProperties", "evaluatedProperties"
			case "Schema.UnevaluatedItems":
				flag, member = "allItems", "evaluatedIndexes"
			default:
				continue
			}
			found++
			var as []atom
			for _, lv := range s.Levels {
				as = append(as, atomsOf(lv)...)
			}
			// the site runs in the body of a range over a package iterator (for i := range anns.unevaluatedIndexes(...)):
			// what guards the iterator's yield guards the body
			var yields []*ssa.Call
			for _, lv := range s.Levels {
				for f := lv.Parent(); f != nil; f = f.Parent() {
					if isRangeFuncBody(f) {
						yields = append(yields, c.yieldCallsOf(f)...)
					}
				}
			}
			for _, y := range yields {
				as = append(as, atomsOf(y)...)
			}
			// nothing else of the record decides whether an element is handed to the keyword: a condition that can
			// skip the application and reads the record must be the flag, the element's membership, or the loop bound
			{
				var readsRecord func(v ssa.Value, depth int) bool
				readsRecord = func(v ssa.Value, depth int) bool {
					if depth == 0 || v == nil {
						return false
					}
					switch x := v.(type) {
					case *ssa.UnOp:
						if fa, ok := x.X.(*ssa.FieldAddr); ok && x.Op == token.MUL && m.isFrameAnns(fa) {
							return true
						}
						return readsRecord(x.X, depth-1)
					case *ssa.BinOp:
						return readsRecord(x.X, depth-1) || readsRecord(x.Y, depth-1)
					case *ssa.Call:
						for _, a := range x.Call.Args {
							if readsRecord(a, depth-1) {
								return true
							}
						}
					case *ssa.Convert:
						return readsRecord(x.X, depth-1)
					}
					return false
				}
				var extra []string
				points := []ssa.Instruction{s.siteInstr()}
				for _, y := range yields {
					points = append(points, y)
				}
				for pk, pt := range points {
					gs := skipGuards(pt)
					if pk > 0 {
						gs = controlGuards(pt) // in an iterator every way of not yielding skips the element
					}
					for _, g := range gs {
						cond := g.Cond
						switch x := cond.(type) {
						case *ssa.UnOp:
							if fa, ok := x.X.(*ssa.FieldAddr); ok && x.Op == token.MUL && m.isFrameAnns(fa) {
								continue // a flag of the record
							}
						case *ssa.Lookup:
							continue // membership
						case *ssa.Extract:
							if _, isLk := x.Tuple.(*ssa.Lookup); isLk {
								continue
							}
						case *ssa.Call:
							if callee := x.Call.StaticCallee(); callee != nil && isMembershipFn(callee) {
								continue
							}
						case *ssa.BinOp:
							if _, isPhi := x.X.(*ssa.Phi); isPhi {
								continue // the loop bound (i < n)
							}
							if _, isPhi := x.Y.(*ssa.Phi); isPhi {
								continue
							}
						}
						if readsRecord(cond, 5) {
							extra = append(extra, c.pos(g.At))
						}
					}
				}
				c.R.Check(len(extra) == 0, rule, src+":no-count-shortcut", c.pos(s.siteInstr()), "besides the flag, the membership of the element and the loop bound, nothing read from the record can skip the application",
					fmt.Sprintf("whether %s is applied to an element also depends on another condition computed from the annotation record (at %v), e.g. a count of evaluated elements: indexes recorded twice (by prefixItems and by contains) make the count reach the length while an element is still unevaluated", src, uniq(extra)))
			}
			pos := c.pos(s.siteInstr())
			c.R.Check(has(as, flag, "flag", false), rule, src+":not-all-evaluated", pos, "applied only when the merged record does not say all were evaluated (!"+flag+")",
				"the application of "+src+" is not guarded by the negation of annotations."+flag)
			c.R.Check(has(as, member, "member", false), rule, src+":not-member", pos, "applied per element only when the element is not in the merged evaluated set (!"+member+"[·])",
				"the application of "+src+" is not guarded per element by a failed membership test in annotations."+member)
			if src == "Schema.UnevaluatedItems" {
				// the index starts at endIndex: the index argument of instance.Index(i) is a phi with an edge loading anns.endIndex
				okStart := false
				if call, ok := s.Inst.(*ssa.Call); ok && core.CalleeKey(&call.Call) == "reflect.Value.Index" && len(call.Call.Args) == 2 {
					// every initial value of the index is the merged endIndex (the increment of the loop variable aside)
					nEnd, nOther := 0, 0
					idxSrcs := traceSources(call.Call.Args[1])
					// the index handed over by a package iterator: what the iterator yields
					if len(idxSrcs) == 1 {
						if p, isP := idxSrcs[0].(*ssa.Parameter); isP && isRangeFuncBody(p.Parent()) {
							idxSrcs = nil
							for _, y := range c.yieldCallsOf(p.Parent()) {
								for k, bp := range p.Parent().Params {
									if bp == p && k < len(y.Call.Args) {
										idxSrcs = append(idxSrcs, traceSources(y.Call.Args[k])...)
									}
								}
							}
						}
					}
					for _, e := range idxSrcs {
						if ld, ok := e.(*ssa.UnOp); ok {
							if fa, ok := ld.X.(*ssa.FieldAddr); ok && m.isFrameAnns(fa) && core.CanonFieldOf(fa.X.Type(), fa.Field) == "endIndex" {
								nEnd++
								continue
							}
						}
						if bo, ok := e.(*ssa.BinOp); ok && bo.Op == token.ADD {
							if _, isPhi := bo.X.(*ssa.Phi); isPhi {
								continue // i++
							}
						}
						nOther++
					}
					okStart = nEnd > 0 && nOther == 0
				}
				c.R.Check(okStart, rule, src+":from-endIndex", pos, "the scan starts at the merged endIndex (items below it were evaluated by prefixItems/items)",
					"the index of the items handed to unevaluatedItems does not start at annotations.endIndex")
			}
		}
	}
	c.R.Floor(rule, "unevaluated* application sites", found, 2)
}

// ---- C07/records: a successful child evaluation is recorded in the frame's record ----

// successBlock returns the successor taken when the error result of the site is nil.
func successBlock(site ssa.CallInstruction) *ssa.BasicBlock {
	call, ok := site.(*ssa.Call)
	if !ok {
		return nil
	}
	b := call.Block()
	isSiteVal := func(v ssa.Value) bool {
		if v == call {
			return true
		}
		if ld, ok := v.(*ssa.UnOp); ok && ld.Op == token.MUL {
			if cell := resolveCell(ld.X); cell != nil {
				for _, i := range b.Instrs {
					if st, ok := i.(*ssa.Store); ok && resolveCell(st.Addr) == cell && st.Val == call {
						return true
					}
				}
			}
		}
		return false
	}
	// search forward through straight-line successors for the test
	cur := b
	for hops := 0; hops < 3 && cur != nil; hops++ {
		if ifi, ok := cur.Instrs[len(cur.Instrs)-1].(*ssa.If); ok {
			if bo, ok := ifi.Cond.(*ssa.BinOp); ok && (bo.Op == token.NEQ || bo.Op == token.EQL) {
				var other ssa.Value
				if isSiteVal(bo.X) {
					other = bo.Y
				} else if isSiteVal(bo.Y) {
					other = bo.X
				}
				if k, ok := other.(*ssa.Const); ok && k.IsNil() {
					if bo.Op == token.NEQ {
						return cur.Succs[1]
					}
					return cur.Succs[0]
				}
			}
			return nil
		}
		if len(cur.Succs) == 1 {
			cur = cur.Succs[0]
		} else {
			return nil
		}
	}
	return nil
}

func mustPass(start *ssa.BasicBlock, through map[*ssa.BasicBlock]bool, targets map[*ssa.BasicBlock]bool) bool {
	if through[start] {
		return true
	}
	seen := map[*ssa.BasicBlock]bool{start: true}
	stack := []*ssa.BasicBlock{start}
	for len(stack) > 0 {
		b := stack[len(stack)-1]
		stack = stack[:len(stack)-1]
		if targets[b] {
			return false
		}
		for _, s := range b.Succs {
			if !seen[s] && !through[s] {
				seen[s] = true
				stack = append(stack, s)
			}
		}
	}
	return true
}

// mustPassEdges: like mustPass, ignoring the given (infeasible) edges.
func mustPassEdges(start *ssa.BasicBlock, through map[*ssa.BasicBlock]bool, targets map[*ssa.BasicBlock]bool, skip map[[2]*ssa.BasicBlock]bool) bool {
	if through[start] {
		return true
	}
	seen := map[*ssa.BasicBlock]bool{start: true}
	stack := []*ssa.BasicBlock{start}
	for len(stack) > 0 {
		b := stack[len(stack)-1]
		stack = stack[:len(stack)-1]
		if targets[b] {
			return false
		}
		for _, s := range b.Succs {
			if skip[[2]*ssa.BasicBlock{b, s}] {
				continue
			}
			if !seen[s] && !through[s] {
				seen[s] = true
				stack = append(stack, s)
			}
		}
	}
	return true
}

func ruleC07Records(c *Ctx) {
	const rule = "C07/records"
	m := c.EvalModel(rule)
	if m == nil || m.frameAnns == nil {
		return
	}
	// the merge block (success exit of the evaluator)
	var mergeBlock *ssa.BasicBlock
	mergeFn := c.P.MethodOf("annotations", "merge")
	c.eachFamOwn(m.E, func(i ssa.Instruction) {
		if call, ok := i.(*ssa.Call); ok && call.Call.StaticCallee() == mergeFn && isParamOrLoad(call.Call.Args[0], m.annsParam) {
			mergeBlock = call.Block()
		}
		if call, ok := i.(*ssa.Call); ok && call.Parent() == m.E {
			for pi, a := range call.Call.Args {
				if isParamOrLoad(a, m.annsParam) {
					if _, ok := c.handOverHelper(call.Call.StaticCallee(), pi); ok {
						mergeBlock = call.Block()
					}
				}
			}
		}
	})
	if mergeBlock == nil {
		c.R.Unresolved(rule, "merge into the caller's annotations")
		return
	}
	// the map handed to noteProperties (the per-schema evaluated-property set)
	var evalPropsCell *ssa.Alloc
	var notePropsBlocks = map[*ssa.BasicBlock]bool{}
	c.eachFamOwn(m.E, func(i ssa.Instruction) {
		if call, ok := i.(*ssa.Call); ok {
			if callee := call.Call.StaticCallee(); callee != nil && core.FuncName(callee) == "(*annotations).noteProperties" && m.isFrameAnns(call.Call.Args[0]) {
				notePropsBlocks[call.Block()] = true
				if ld, ok := call.Call.Args[1].(*ssa.UnOp); ok {
					evalPropsCell = resolveCell(ld.X)
				}
			}
		}
	})
	// the set itself, or a helper's parameter that is the set at every call
	var isEvalProps func(v ssa.Value, depth int) bool
	isEvalProps = func(v ssa.Value, depth int) bool {
		switch x := v.(type) {
		case *ssa.UnOp:
			return x.Op == token.MUL && evalPropsCell != nil && resolveCell(x.X) == evalPropsCell
		case *ssa.Parameter:
			args := c.P.ArgsFor(x)
			if depth == 0 || len(args) == 0 || x.Parent().Parent() != nil {
				return false
			}
			for _, a := range args {
				if !isEvalProps(a, depth-1) {
					return false
				}
			}
			return true
		}
		return false
	}
	recordBlocks := func(fn *ssa.Function, kind string) map[*ssa.BasicBlock]bool {
		out := map[*ssa.BasicBlock]bool{}
		core.EachInstr(fn, func(i ssa.Instruction) {
			switch x := i.(type) {
			case *ssa.Store:
				if fa, ok := x.Addr.(*ssa.FieldAddr); ok && m.isFrameAnns(fa) {
					if k, ok := x.Val.(*ssa.Const); ok && k.Value != nil && k.Value.String() == "true" {
						if "store:"+core.CanonFieldOf(fa.X.Type(), fa.Field) == kind {
							out[x.Block()] = true
						}
					}
				}
			case *ssa.Call:
				if callee := x.Call.StaticCallee(); callee != nil && "call:"+shortFuncName(callee) == kind && len(x.Call.Args) > 0 && m.isFrameAnns(x.Call.Args[0]) {
					out[x.Block()] = true
				}
			case *ssa.MapUpdate:
				if kind == "evalprops" && evalPropsCell != nil {
					if isEvalProps(x.Map, 3) {
						if k, ok := x.Value.(*ssa.Const); ok && k.Value != nil && k.Value.String() == "true" {
							out[x.Block()] = true
						}
						if st, ok := x.Value.Type().Underlying().(*types.Struct); ok && st.NumFields() == 0 {
							out[x.Block()] = true // map[K]struct{} as a set
						}
					}
				}
			}
		})
		return out
	}
	want := map[string]string{
		"Schema.Items": "store:allItems", "Schema.AdditionalItems": "store:allItems", "Schema.UnevaluatedItems": "store:allItems",
		"Schema.PrefixItems": "call:noteEndIndex", "Schema.ItemsArray": "call:noteEndIndex",
		"Schema.Contains":   "call:noteIndex",
		"Schema.Properties": "evalprops", "resolvedInfo.patternProperties": "evalprops", "Schema.AdditionalProperties": "evalprops",
		"Schema.UnevaluatedProperties": "store:allProperties",
	}
	n := 0
	for _, s := range m.Sites {
		if s.Loc != "child" {
			continue
		}
		for _, src := range s.SchemaSrc {
			kind, ok := want[src]
			if !ok {
				continue
			}
			n++
			construct := src + ":" + kind
			pos := c.pos(s.Call)
			fn := s.Call.Parent()
			sb := successBlock(s.Call)
			if sb == nil {
				c.R.Unknown(rule, construct, pos, "cannot find the test of the evaluation's error result")
				continue
			}
			ok2 := true
			inClosure := fn != m.E
			inHelper := fn != m.E && fn.Parent() == nil // a transparent helper of the evaluator: it records before it returns
			if kind == "evalprops" || !inClosure || inHelper {
				through := recordBlocks(fn, kind)
				targets := map[*ssa.BasicBlock]bool{}
				if inClosure {
					for _, b := range fn.Blocks {
						if _, isRet := b.Instrs[len(b.Instrs)-1].(*ssa.Return); isRet {
							if inHelper && (blockReturnsErrorLocal(b) || blockReturnsErrorDeepLocal(b)) {
								continue // a failure exit of the helper: nothing to record
							}
							targets[b] = true
						}
					}
				} else {
					targets[mergeBlock] = true
				}
				// a branch on "the evaluated schema is nil" cannot go the nil way after that schema was evaluated
				pruned := map[*ssa.BasicBlock]bool{}
				infeasible := map[[2]*ssa.BasicBlock]bool{}
				for k, v := range through {
					pruned[k] = v
				}
				for _, b := range fn.Blocks {
					ifi, isIf := b.Instrs[len(b.Instrs)-1].(*ssa.If)
					if !isIf || len(b.Succs) != 2 {
						continue
					}
					x, k, equal, isEq := eqConst(guardAtom{Cond: ifi.Cond, Pol: true})
					if !isEq || !k.IsNil() {
						continue
					}
					carries := false
					for _, sv := range append(traceSources(x), x) {
						if c.isDirectFieldLoad(sv, src) {
							carries = true
						}
					}
					if !carries {
						continue
					}
					nilSucc := b.Succs[1]
					if equal {
						nilSucc = b.Succs[0]
					}
					infeasible[[2]*ssa.BasicBlock{b, nilSucc}] = true
				}
				ok2 = mustPassEdges(sb, pruned, targets, infeasible)
			} else {
				// recorded in the evaluator body after the loop that runs the closure
				through := recordBlocks(m.E, kind)
				var at ssa.Instruction
				c.eachFamOwn(m.E, func(i ssa.Instruction) {
					if call, ok := i.(ssa.CallInstruction); ok {
						for _, a := range append([]ssa.Value{call.Common().Value}, call.Common().Args...) {
							for _, srcv := range traceSources(a) {
								if mc, ok := srcv.(*ssa.MakeClosure); ok && mc.Fn == fn {
									at = i
								}
							}
						}
					}
				})
				if at == nil {
					c.R.Unknown(rule, construct, pos, "cannot locate where the closure containing the site runs")
					continue
				}
				ok2 = mustPassAfter(at, through, mergeBlock)
			}
			what := map[string]string{"store:allItems": "annotations.allItems = true", "store:allProperties": "annotations.allProperties = true", "call:noteEndIndex": "noteEndIndex", "call:noteIndex": "noteIndex", "evalprops": "an insertion into the per-schema evaluated-property set"}[kind]
			c.R.Check(ok2, rule, construct, pos, "every successful path from this evaluation to the success exit records it ("+what+")",
				fmt.Sprintf("a successful evaluation of %s can reach the success exit without %s: the evaluated children would later be handed to unevaluated* again (or a parent's unevaluated* would re-apply to them)", src, what))
		}
	}
	nEnd := 0
	// the end index is exclusive (the complement starts at it): what is recorded is a count of evaluated positions, never
	// the position of the last evaluated item itself
	c.eachFamOwn(m.E, func(i ssa.Instruction) {
		call, ok := i.(*ssa.Call)
		if !ok {
			return
		}
		callee := call.Call.StaticCallee()
		if callee == nil || shortFuncName(callee) != "noteEndIndex" || len(call.Call.Args) != 2 || !m.isFrameAnns(call.Call.Args[0]) {
			return
		}
		arg := call.Call.Args[1]
		nEnd++
		position := ""
		core.EachInstr(call.Parent(), func(j ssa.Instruction) {
			ic, ok := j.(*ssa.Call)
			if !ok || core.CalleeKey(&ic.Call) != "reflect.Value.Index" || len(ic.Call.Args) != 2 {
				return
			}
			for _, src := range append(traceSources(arg), arg) {
				if src == ic.Call.Args[1] {
					if _, isConst := src.(*ssa.Const); !isConst {
						position = c.pos(ic)
					}
				}
			}
		})
		c.R.Check(position == "", rule, fmt.Sprintf("endIndex:exclusive#%d", nEnd), c.pos(call), "the end index recorded is a count of positions, not the position of an item",
			"the value recorded as the end of the evaluated prefix is the index of an item that was just evaluated (the same value indexes the instance at "+position+"), but the end index is exclusive: the last evaluated item is handed to unevaluatedItems again")
	})
	c.R.Floor(rule, "child evaluation sites that must record", n, 7)
	// the per-schema set reaches the record
	if evalPropsCell == nil {
		c.R.Bad(rule, "noteProperties", c.P.Pos(m.E.Pos()), "the per-schema evaluated-property set is never handed to the frame's record (noteProperties)")
	} else {
		c.R.OK(rule, "noteProperties", "", "the per-schema evaluated-property set is merged into the frame's record")
	}
}

// mustPassAfter: every path from just after instruction at to target passes through a block of `through`.
func mustPassAfter(at ssa.Instruction, through map[*ssa.BasicBlock]bool, target *ssa.BasicBlock) bool {
	b := at.Block()
	if through[b] {
		// the record must come after the instruction within the block; accept (stores follow the loop call)
		return true
	}
	for _, s := range b.Succs {
		if !mustPass(s, through, map[*ssa.BasicBlock]bool{target: true}) {
			return false
		}
	}
	return true
}

// ---- C07/monotone: the annotation record only grows ----

func init() {
	p := Properties["C07"]
	p.Rules = append(p.Rules, Rule{"C07/monotone", ruleC07Monotone}, Rule{"C07/visits-all", ruleC07VisitsAll})
}

// Every write to a field of an annotations record, anywhere in the closure of
// Validate, is monotone: flags are only set to true, endIndex is only raised
// (the store is guarded by new > old), sets only gain members.
func ruleC07Monotone(c *Ctx) {
	const rule = "C07/monotone"
	ev := c.Closure(rule, "EV")
	n := 0
	for _, fn := range ev.Sorted() {
		fi := core.Info(fn)
		core.EachInstr(fn, func(i ssa.Instruction) {
			switch x := i.(type) {
			case *ssa.Store:
				// a helper that updates a field through a pointer to it: orBool(&a.allItems, v), maxInt(&a.endIndex, v)
				if pp, isParam := x.Addr.(*ssa.Parameter); isParam {
					var fields []string
					for _, a := range c.P.ArgsFor(pp) {
						if fa, ok := a.(*ssa.FieldAddr); ok && c.isPkgNamed(fa.X.Type(), "annotations") {
							fields = append(fields, core.StructField(fa.X.Type(), fa.Field).Name())
						}
					}
					if len(fields) == 0 {
						return
					}
					n += len(fields)
					construct := core.FuncName(fn) + ":*" + pp.Name()
					et := pp.Type().Underlying().(*types.Pointer).Elem()
					if isBoolType(et) {
						k, isConst := x.Val.(*ssa.Const)
						c.R.Check(isConst && k.Value != nil && k.Value.String() == "true", rule, construct, c.pos(x), "the flag is only ever set to true", fmt.Sprintf("the annotation flags %v are assigned, through this helper, something other than the constant true", fields))
						return
					}
					raised := false
					for _, br := range fi.DomGuards(x.Block()) {
						cond, pol := br.Cond()
						bo, ok := cond.(*ssa.BinOp)
						if !ok {
							continue
						}
						isOld := func(v ssa.Value) bool {
							ld, ok := v.(*ssa.UnOp)
							return ok && ld.Op == token.MUL && ld.X == ssa.Value(pp)
						}
						isNew := func(v ssa.Value) bool { return v == x.Val }
						switch {
						case isNew(bo.X) && isOld(bo.Y) && ((bo.Op == token.GTR && pol) || (bo.Op == token.LEQ && !pol)):
							raised = true
						case isOld(bo.X) && isNew(bo.Y) && ((bo.Op == token.LSS && pol) || (bo.Op == token.GEQ && !pol)):
							raised = true
						}
					}
					c.R.Check(raised, rule, construct, c.pos(x), "the high-water mark is stored only when the new value exceeds the old one", fmt.Sprintf("the annotation fields %v are assigned through this helper without a guard `new > old`", fields))
					return
				}
				fa, ok := x.Addr.(*ssa.FieldAddr)
				if !ok || !c.isPkgNamed(fa.X.Type(), "annotations") {
					return
				}
				f := core.StructField(fa.X.Type(), fa.Field)
				n++
				construct := core.FuncName(fn) + ":" + f.Name()
				switch ft := f.Type().Underlying().(type) {
				case *types.Basic:
					if ft.Kind() == types.Bool {
						k, isConst := x.Val.(*ssa.Const)
						okFlag := isConst && k.Value != nil && k.Value.String() == "true"
						// `a.f = a.f || v`: true where the flag was set, anything where it was not
						if phi, isPhi := x.Val.(*ssa.Phi); isPhi && !okFlag {
							isOld := func(v ssa.Value) bool {
								ld, ok := v.(*ssa.UnOp)
								if !ok || ld.Op != token.MUL {
									return false
								}
								fa2, ok := ld.X.(*ssa.FieldAddr)
								return ok && fa2.Field == fa.Field && fa2.X == fa.X
							}
							var test *ssa.BasicBlock
							for ei, pr := range phi.Block().Preds {
								if ifi, ok := pr.Instrs[len(pr.Instrs)-1].(*ssa.If); ok && isOld(ifi.Cond) && pr.Succs[0] == phi.Block() {
									if kc, ok := phi.Edges[ei].(*ssa.Const); ok && kc.Value != nil && kc.Value.String() == "true" {
										test = pr
									}
								}
							}
							if test != nil {
								okFlag = true
								for ei, pr := range phi.Block().Preds {
									if pr == test {
										continue
									}
									if kc, ok := phi.Edges[ei].(*ssa.Const); ok && kc.Value != nil && kc.Value.String() == "true" {
										continue
									}
									if pr != test.Succs[1] && !test.Succs[1].Dominates(pr) {
										okFlag = false
									}
								}
							}
						}
						c.R.Check(okFlag, rule, construct, c.pos(x), "the flag is only ever set to true", "annotations."+f.Name()+" is assigned something other than the constant true: a recorded 'all evaluated' could be withdrawn or set spuriously")
						return
					}
					// integer high-water mark: guarded by new > old
					raised := false
					for _, br := range fi.DomGuards(x.Block()) {
						cond, pol := br.Cond()
						bo, ok := cond.(*ssa.BinOp)
						if !ok {
							continue
						}
						isOld := func(v ssa.Value) bool {
							ld, ok := v.(*ssa.UnOp)
							if !ok {
								return false
							}
							fa2, ok := ld.X.(*ssa.FieldAddr)
							return ok && fa2.Field == fa.Field && fa2.X == fa.X
						}
						isNew := func(v ssa.Value) bool { return v == x.Val || sameLoadSource(v, x.Val) || sameFieldLoad(v, x.Val) }
						switch {
						case isNew(bo.X) && isOld(bo.Y) && ((bo.Op == token.GTR && pol) || (bo.Op == token.LEQ && !pol)):
							raised = true
						case isOld(bo.X) && isNew(bo.Y) && ((bo.Op == token.LSS && pol) || (bo.Op == token.GEQ && !pol)):
							raised = true
						}
					}
					c.R.Check(raised, rule, construct, c.pos(x), "the high-water mark is stored only when the new value exceeds the old one", "annotations."+f.Name()+" is assigned without a guard `new > old` on the same value: the evaluated prefix recorded by prefixItems (or merged from an in-place applicator) can shrink")
				case *types.Map:
					// the stored map must be a fresh map or the result of the set-merge helper (checked by C14/no-annotation-aliasing)
					okv := false
					switch v := x.Val.(type) {
					case *ssa.MakeMap:
						okv = true
					case *ssa.Call:
						if callee := v.Call.StaticCallee(); callee != nil && c.P.InPkg(callee) {
							okv = true
						}
					}
					c.R.Check(okv, rule, construct, c.pos(x), "the set is replaced only by a fresh map or by the merge helper's result", "annotations."+f.Name()+" is overwritten with another map: recorded members can be lost")
				}
			case *ssa.Call:
				key := core.CalleeKey(&x.Call)
				if key != "builtin.delete" && key != "builtin.clear" && !strings.HasPrefix(key, "maps.DeleteFunc") {
					return
				}
				if len(x.Call.Args) == 0 {
					return
				}
				for _, s := range append(traceSources(x.Call.Args[0]), x.Call.Args[0]) {
					if ld, ok := s.(*ssa.UnOp); ok {
						if fa, ok := ld.X.(*ssa.FieldAddr); ok && c.isPkgNamed(fa.X.Type(), "annotations") {
							c.R.Bad(rule, core.FuncName(fn)+":"+key, c.pos(x), "members are removed from an annotation set")
						}
					}
				}
			}
		})
	}
	c.R.Floor(rule, "stores to annotation fields in the closure of Validate", n, 10)
}

// An in-place applicator over a list (anyOf, oneOf) must evaluate every
// subschema unless the keyword has already failed: the loop around the site has
// no exit other than exhaustion and failure returns.
func ruleC07VisitsAll(c *Ctx) {
	const rule = "C07/visits-all"
	m := c.EvalModel(rule)
	if m == nil {
		return
	}
	n := 0
	for _, s := range m.Sites {
		for _, src := range s.SchemaSrc {
			if src != "Schema.AnyOf" && src != "Schema.OneOf" && src != "Schema.AllOf" {
				continue
			}
			// innermost loop header around the evaluation or around a call that leads to it:
			// a dominator of the block that is reachable from it
			site := s.siteInstr()
			var header *ssa.BasicBlock
			for _, lv := range s.Levels {
				b := lv.Block()
				for d := b; d != nil && header == nil; d = d.Idom() {
					for _, pr := range d.Preds {
						if d.Dominates(pr) && (pr == b || core.Reachable(b, pr, nil)) {
							header = d
						}
					}
				}
				if header != nil {
					site = lv
					break
				}
			}
			fn := site.Parent()
			if header == nil {
				c.R.Unknown(rule, src, c.pos(site), "the evaluation site is not inside a loop over the subschemas")
				continue
			}
			n++
			inLoop := map[*ssa.BasicBlock]bool{}
			for _, blk := range fn.Blocks {
				if header.Dominates(blk) && (blk == header || core.Reachable(blk, header, nil)) {
					inLoop[blk] = true
				}
			}
			bad := ""
			for blk := range inLoop {
				for _, succ := range blk.Succs {
					if inLoop[succ] || blk == header {
						continue
					}
					if !blockReturnsError(succ) && !blockReturnsErrorDeep(succ) {
						bad = c.pos(blk.Instrs[len(blk.Instrs)-1])
					}
				}
			}
			c.R.Check(bad == "", rule, src, c.pos(site), "the loop over "+src+" leaves only by exhaustion or by a failure return: every subschema contributes its annotations", fmt.Sprintf("the loop over %s can be left early without failing (at %s): subschemas after the first decisive one are not evaluated, so their annotations are missing for unevaluated*", src, bad))
		}
	}
	c.R.Floor(rule, "list applicator loops", n, 3)
}

// sameFieldLoad: both values load the same field of the same base pointer.
func sameFieldLoad(a, b ssa.Value) bool {
	la, ok1 := a.(*ssa.UnOp)
	lb, ok2 := b.(*ssa.UnOp)
	if !ok1 || !ok2 {
		return false
	}
	fa, ok1 := la.X.(*ssa.FieldAddr)
	fb, ok2 := lb.X.(*ssa.FieldAddr)
	return ok1 && ok2 && fa.Field == fb.Field && fa.X == fb.X
}

func init() {
	p := Properties["C07"]
	p.Rules = append(p.Rules, Rule{"C07/no-applicator-skipped", ruleC07NoApplicatorSkipped})
	p1 := Properties["C01"]
	p1.Rules = append(p1.Rules, Rule{"C01/no-applicator-skipped", func(c *Ctx) {
		runAs(c, "C01/no-applicator-skipped", "C07/no-applicator-skipped", ruleC07NoApplicatorSkipped)
	}})
}

// which other keywords may legitimately decide whether (or from where) a keyword's subschemas are applied
var applicatorCross = map[string][]string{
	"Items":                 {"ItemsArray", "PrefixItems"},
	"AdditionalItems":       {"ItemsArray", "Items"},
	"ItemsArray":            {},
	"Then":                  {"If"},
	"Else":                  {"If", "Then"},
	"AdditionalProperties":  {"Not", "Properties", "PatternProperties"},
	"PatternProperties":     {"Properties"},
	"UnevaluatedItems":      {},
	"UnevaluatedProperties": {},
}

// A keyword that holds subschemas is applied whenever it is present: the only
// conditions under which its evaluation site can be skipped are its own
// presence, the instance's kind, the draft, the per-element bookkeeping and
// the keywords it is defined in terms of - never the value of an unrelated keyword
// (a "fast path" that skips `contains` when minContains is 0 also skips its annotations).
func ruleC07NoApplicatorSkipped(c *Ctx) {
	const rule = "C07/no-applicator-skipped"
	m := c.EvalModel(rule)
	if m == nil {
		return
	}
	fields := c.SchemaFields(rule)
	n := 0
	for _, s := range m.Sites {
		var own []string
		for _, src := range s.SchemaSrc {
			if strings.HasPrefix(src, "Schema.") {
				own = append(own, strings.TrimPrefix(src, "Schema."))
			}
			if src == "resolvedInfo.patternProperties" {
				own = append(own, "PatternProperties")
			}
			if strings.HasPrefix(src, "resolvedInfo.resolved") || src == "anchorInfo.schema" || strings.HasPrefix(src, "resolvedInfo.dynamic") {
				own = append(own, "Ref", "DynamicRef")
			}
		}
		if len(own) == 0 {
			continue
		}
		allowed := map[string]bool{}
		for _, o := range own {
			allowed[o] = true
			for _, x := range applicatorCross[o] {
				allowed[x] = true
			}
		}
		n++
		// guards of the site, and of the place where its enclosing closure runs
		var bad []string
		var walk func(ins ssa.Instruction)
		walk = func(ins ssa.Instruction) {
			for _, g := range skipGuards(ins) {
				var other string
				for _, f := range fields {
					if !allowed[f.Name] && c.mentionsField(g.Cond, "Schema."+f.Name, 5) {
						other = f.Name
					}
				}
				if other == "" {
					continue
				}
				bad = append(bad, fmt.Sprintf("%s (at %s)", other, c.pos(g.At)))
			}
			fn := ins.Parent()
			if fn != m.E && fn.Parent() != nil {
				core.EachInstr(fn.Parent(), func(j ssa.Instruction) {
					if call, ok := j.(ssa.CallInstruction); ok {
						for _, a := range append([]ssa.Value{call.Common().Value}, call.Common().Args...) {
							for _, src := range traceSources(a) {
								if mc, ok := src.(*ssa.MakeClosure); ok && mc.Fn == fn {
									walk(j)
								}
							}
						}
					}
				})
			}
		}
		walk(s.siteInstr())
		key := s.key()
		c.R.Check(len(bad) == 0, rule, key, c.pos(s.siteInstr()), fmt.Sprintf("%v is applied whenever it is present (skippable only by its own presence, kind, draft and bookkeeping tests)", own),
			fmt.Sprintf("the evaluation of %v can be skipped depending on the unrelated keyword(s) %v: the keyword's verdict and the annotations it would record (for unevaluated*) are lost for those schemas", own, uniq(bad)))
	}
	c.R.Floor(rule, "evaluation sites", n, 14)
}

// isMembershipFn: fn(set, key) returns whether key is present in the map set (a lookup of its second parameter in its first).
func isMembershipFn(fn *ssa.Function) bool {
	if len(fn.Params) != 2 || fn.Signature.Results().Len() != 1 || !isBoolType(fn.Signature.Results().At(0).Type()) {
		return false
	}
	ok := false
	n := 0
	core.EachInstr(fn, func(i ssa.Instruction) {
		ret, isRet := i.(*ssa.Return)
		if !isRet || len(ret.Results) != 1 {
			return
		}
		n++
		v := ret.Results[0]
		if ex, isEx := v.(*ssa.Extract); isEx && ex.Index == 1 {
			if lk, isLk := ex.Tuple.(*ssa.Lookup); isLk && lk.X == fn.Params[0] && lk.Index == fn.Params[1] {
				ok = true
				return
			}
		}
		if lk, isLk := v.(*ssa.Lookup); isLk && lk.X == fn.Params[0] && lk.Index == fn.Params[1] {
			ok = true
			return
		}
		ok = false
	})
	return ok && n == 1
}

// yieldCallsOf: body is the body of a range-over-func loop; when the iterator comes from a package function
// (a constructor returning a func(yield) closure), the calls of yield in that closure.
func (c *Ctx) yieldCallsOf(body *ssa.Function) []*ssa.Call {
	at := rangeFuncCall(body)
	if at == nil {
		return nil
	}
	call, ok := at.(ssa.CallInstruction)
	if !ok {
		return nil
	}
	var out []*ssa.Call
	srcs := append(traceSourcesDeep(call.Common().Value), call.Common().Value)
	for _, src := range append([]ssa.Value(nil), srcs...) {
		// the iterator is the result of a package constructor: the closure(s) it returns
		if cc, ok := src.(*ssa.Call); ok {
			if h := cc.Call.StaticCallee(); h != nil && c.P.InPkg(h) {
				core.EachInstr(h, func(i ssa.Instruction) {
					if ret, ok := i.(*ssa.Return); ok && len(ret.Results) == 1 {
						srcs = append(srcs, append(traceSources(ret.Results[0]), ret.Results[0])...)
					}
				})
			}
		}
	}
	for _, src := range srcs {
		mc, ok := src.(*ssa.MakeClosure)
		if !ok {
			continue
		}
		g := mc.Fn.(*ssa.Function)
		if !c.P.InPkg(g) || len(g.Params) == 0 {
			continue
		}
		for _, f := range core.WithAnon(g) {
			core.EachInstr(f, func(i ssa.Instruction) {
				yc, ok := i.(*ssa.Call)
				if !ok || yc.Call.IsInvoke() {
					return
				}
				isYield := yc.Call.Value == ssa.Value(g.Params[0])
				// inside a nested loop body the yield function is a captured variable
				for _, ys := range traceSources(yc.Call.Value) {
					if ys == ssa.Value(g.Params[0]) {
						isYield = true
					}
				}
				if isYield {
					out = append(out, yc)
				}
			})
		}
	}
	return out
}

// handOverHelper: h does nothing with its annotations parameter pi but test it for nil and merge another of its
// parameters into it (st.handOver(callerAnns, &anns)). Returns the index of the source parameter.
func (c *Ctx) handOverHelper(h *ssa.Function, pi int) (int, bool) {
	mergeFn := c.P.MethodOf("annotations", "merge")
	if h == nil || mergeFn == nil || !c.P.InPkg(h) || h.Parent() != nil || pi >= len(h.Params) || h.Params[pi].Referrers() == nil {
		return 0, false
	}
	src := -1
	for _, r := range *h.Params[pi].Referrers() {
		switch x := r.(type) {
		case *ssa.DebugRef, *ssa.BinOp:
		case *ssa.Call:
			if x.Call.StaticCallee() != mergeFn || len(x.Call.Args) != 2 || x.Call.Args[0] != ssa.Value(h.Params[pi]) {
				return 0, false
			}
			for k, p := range h.Params {
				if x.Call.Args[1] == ssa.Value(p) {
					src = k
				}
			}
		default:
			return 0, false
		}
	}
	return src, src >= 0
}
