package rules

import (
	"fmt"
	"go/constant"
	"go/token"
	"go/types"
	"strings"

	"golang.org/x/tools/go/ssa"

	"verif/checker/core"
)

func init() {
	register(&Property{
		ID: "C03",
		Rules: []Rule{
			{"C03/cache-before-recursion", ruleC03Cache},
			{"C03/loader-on-miss-only", ruleC03LoaderOnMiss},
			{"C03/foreign-tables-merged", func(c *Ctx) { ruleForeignTablesMerged(c, "C03/foreign-tables-merged") }},
			{"C03/no-fallback-target", ruleC03NoFallback},
			{"C03/base-of-enclosing-resource", ruleC03Base},
			{"C03/id-registered-resolved", ruleC03IDRegistered},
		},
		Explanation: "Decides the bookkeeping shape of reference resolution for every topology: a loaded document is entered in the loader cache under both its retrieval URI and its canonical URI before its own references are followed (termination of cycles, at-most-once loading of aliases); the Loader is called only on the miss outcome of the local URI table and of the cache, all keyed by the same URI value that is then resolved; whenever the root of another Resolved (freshly loaded or cached) is used as a lookup key in the current side table, the other document's side tables have been merged on every path; a successful return of the reference resolver yields either the schema of an anchor found by a two-result lookup or the result of the JSON-Pointer walker, never a fallback; a reference is resolved against the URI of the base resource of the schema that holds it; each $id is registered under, and scoped by, the URI obtained by RFC 3986 resolution against the parent base. It does NOT decide RFC 3986 resolution itself (net/url) or which target a concrete topology selects.",
		NotDecided:  []string{"RFC 3986 resolution (delegated to net/url)", "which target a concrete reference topology selects", "duplicate-anchor handling (errors of setAnchor are discarded; outside the property's domain)"},
	})
}

// resolverModel locates the functions of the reference resolver by role.
type resolverModel struct {
	refFn      *ssa.Function // resolves one reference: takes the referring *Resolved; the Loader is called in it or in a helper it calls
	loaderCall *ssa.Call
	loaderPath []ssa.CallInstruction // call sites from refFn down to the function that contains the Loader call (empty when it is refFn itself)
	loaderArg  ssa.Value             // the URI given to the Loader, as a value of refFn
	docFn      *ssa.Function         // resolves one document: creates the Resolved, fills the cache
	rsParam    *ssa.Parameter
}

// loaderFI: the Loader call as a family instruction of refFn.
func (m *resolverModel) loaderFI() famInstr { return famInstr{I: m.loaderCall, Path: m.loaderPath} }

func (c *Ctx) resolverModel(rule string) *resolverModel {
	m := &resolverModel{}
	var loaderFn *ssa.Function
	for _, fn := range c.Closure(rule, "RES").Sorted() {
		core.EachInstr(fn, func(i ssa.Instruction) {
			if call, ok := i.(*ssa.Call); ok && c.isLoaderCall(call) {
				if m.loaderCall != nil && m.loaderCall != call {
					c.R.Bad(rule, "loader-call:second", c.pos(call), "more than one call through ResolveOptions.Loader: the at-most-once argument covers a single call site")
				}
				loaderFn, m.loaderCall = fn, call
			}
		})
	}
	if loaderFn == nil {
		c.R.Unresolved(rule, "the call through ResolveOptions.Loader")
		return nil
	}
	// the reference resolver is the function that takes the referring *Resolved: the Loader call may sit in
	// a helper it calls (climb through single-call-site helpers)
	// (role: takes the referring *Resolved and the reference text, returns the target *Schema first)
	hasResolved := func(fn *ssa.Function) bool {
		hasRs, hasText := false, false
		for _, p := range fn.Params {
			if c.isPkgNamed(p.Type(), "Resolved") {
				hasRs = true
			}
			if tString(p.Type()) {
				hasText = true
			}
		}
		res := fn.Signature.Results()
		return hasRs && hasText && res.Len() >= 2 && isPointer(res.At(0).Type()) && c.isPkgNamed(res.At(0).Type(), "Schema")
	}
	cur := loaderFn
	for hops := 0; hops < 4 && !hasResolved(cur) && cur.Parent() == nil && c.P.OnlyStaticCallers(cur); hops++ {
		sites := c.P.CallIndex().Sites[cur]
		if len(sites) != 1 {
			break
		}
		m.loaderPath = append([]ssa.CallInstruction{sites[0]}, m.loaderPath...)
		cur = sites[0].Parent()
	}
	m.refFn = cur
	c.roles["role:reference-resolver"] = m.refFn
	m.loaderArg = upValue(m.loaderCall.Call.Args[0], m.loaderPath)
	for _, p := range m.refFn.Params {
		if c.isPkgNamed(p.Type(), "Resolved") {
			m.rsParam = p
		}
	}
	// the document resolver: a function called from the reference resolver's family that returns a *Resolved
	// and enters it in a table of documents (map to *Resolved)
	for _, fi := range c.familyInstrs(m.refFn) {
		call, ok := fi.I.(*ssa.Call)
		if !ok {
			continue
		}
		callee := call.Call.StaticCallee()
		if callee == nil || !c.P.InPkg(callee) || callee.Signature.Results().Len() != 2 || !c.isPkgNamed(callee.Signature.Results().At(0).Type(), "Resolved") {
			continue
		}
		fills := false
		for _, fj := range c.familyInstrs(callee) {
			if mu, ok := fj.I.(*ssa.MapUpdate); ok && c.isMapTo(mu.Map.Type(), "Resolved") {
				fills = true
			}
		}
		if fills {
			m.docFn = callee
		}
	}
	if m.docFn == nil {
		c.R.Unresolved(rule, "document resolver (callee of the reference resolver returning *Resolved)")
		return nil
	}
	c.roles["role:document-resolver"] = m.docFn
	return m
}

func (c *Ctx) isMapTo(t types.Type, elem string) bool {
	m, ok := t.Underlying().(*types.Map)
	return ok && isPointer(m.Elem()) && c.isPkgNamed(m.Elem(), elem)
}

func ruleC03Cache(c *Ctx) {
	const rule = "C03/cache-before-recursion"
	m := c.resolverModel(rule)
	if m == nil {
		return
	}
	// calls in docFn that (transitively) reach the loader call
	var descents []ssa.Instruction
	core.EachInstr(m.docFn, func(i ssa.Instruction) {
		if call, ok := i.(*ssa.Call); ok {
			if callee := call.Call.StaticCallee(); callee != nil && c.P.InPkg(callee) {
				// the callee (or a function nested in it) calls the reference resolver directly;
				// the call graph is not used here because iterator callbacks merge unrelated traversals
				direct := callee == m.refFn
				if callee != m.docFn {
					for _, fj := range c.familyInstrs(callee) {
						if c2, ok := fj.I.(ssa.CallInstruction); ok && c2.Common().StaticCallee() == m.refFn {
							direct = true
						}
					}
				}
				if direct {
					descents = append(descents, call)
				}
			}
		}
	})
	if len(descents) == 0 {
		c.R.Unresolved(rule, "the call that follows the document's references")
		return
	}
	var urlParam *ssa.Parameter
	for _, p := range m.docFn.Params {
		if isNamed(p.Type(), "net/url", "URL") {
			urlParam = p
		}
	}
	var byRetrieval, byCanonical ssa.Instruction // the store, or the call in the document resolver that leads to it
	for _, fi := range c.familyInstrs(m.docFn) {
		mu, ok := fi.I.(*ssa.MapUpdate)
		if !ok || !c.isMapTo(mu.Map.Type(), "Resolved") {
			continue
		}
		// key = X.String()
		kc, ok := mu.Key.(*ssa.Call)
		if !ok || core.CalleeKey(&kc.Call) != "net/url.URL.String" {
			continue
		}
		// (the URIs may be gone through one after the other: for _, u := range [...]*url.URL{a, b} { cache[u.String()] = rs })
		recvs := []ssa.Value{kc.Call.Args[0]}
		if elems := fixedArrayElems(kc.Call.Args[0]); len(elems) > 0 {
			recvs = elems
		}
		for _, recv := range recvs {
			if upValue(recv, fi.Path) == ssa.Value(urlParam) {
				byRetrieval = fi.Top()
				continue
			}
			_, steps := c.accessPath(recv)
			if len(steps) > 0 && steps[len(steps)-1].Field == "resolvedInfo.uri" {
				byCanonical = fi.Top()
			}
		}
	}
	for name, mu := range map[string]ssa.Instruction{"retrieval-uri": byRetrieval, "canonical-uri": byCanonical} {
		if mu == nil {
			c.R.Bad(rule, "cache-key:"+name, c.P.Pos(m.docFn.Pos()), "the document resolver does not enter the new Resolved in the loader cache under its "+name+": a second reference through that spelling loads the document again, and a reference cycle through it recurses without bound")
			continue
		}
		dom := true
		for _, d := range descents {
			if !core.Dominates(mu, d) && !inFixedLoopBefore(mu, d) {
				dom = false
			}
		}
		c.R.Check(dom, rule, "cache-key:"+name, c.pos(mu), "cached under the "+name+" before the document's references are followed", "the cache entry under the "+name+" is made after (or not on every path before) the document's references are followed: a reference cycle recurses without bound")
	}
}

func ruleC03LoaderOnMiss(c *Ctx) {
	const rule = "C03/loader-on-miss-only"
	m := c.resolverModel(rule)
	if m == nil {
		return
	}
	arg := m.loaderArg
	var missLocal, missCache bool
	for _, g := range famGuards(m.loaderFI()) {
		x, k, equal, ok := eqConst(g)
		if !ok || !k.IsNil() || !equal {
			continue
		}
		lk, ok := x.(*ssa.Lookup)
		if !ok {
			continue
		}
		// key must be arg.String()
		kc, ok := lk.Index.(*ssa.Call)
		if !ok || core.CalleeKey(&kc.Call) != "net/url.URL.String" || !(kc.Call.Args[0] == arg || sharesSourceDeep(kc.Call.Args[0], arg)) {
			continue
		}
		_, steps := c.accessPath(lk.X)
		switch pathString(steps) {
		case "Resolved.resolvedURIs":
			missLocal = true
		case "resolver.loaded":
			missCache = true
		}
	}
	c.R.Check(missLocal, rule, "miss:local-uri-table", c.pos(m.loaderCall), "the Loader is called only when the URI is not a resource of the current document", "the Loader call is not guarded by a failed lookup of the same URI in the document's own URI table")
	c.R.Check(missCache, rule, "miss:loader-cache", c.pos(m.loaderCall), "the Loader is called only when the URI is not in the loader cache", "the Loader call is not guarded by a failed lookup of the same URI in the loader cache: a document can be requested more than once")
	// the loaded document is resolved under the same URI
	okSame := false
	for _, fi := range c.familyInstrs(m.refFn) {
		if call, ok := fi.I.(*ssa.Call); ok && call.Call.StaticCallee() == m.docFn {
			for _, a := range call.Call.Args {
				if upValue(a, fi.Path) == arg {
					okSame = true
				}
			}
		}
	}
	c.R.Check(okSame, rule, "resolved-under-loaded-uri", c.pos(m.loaderCall), "the loaded document is resolved (and cached) under the URI it was requested with", "the loaded document is resolved under a different URI than the one given to the Loader: the cache key would not match later lookups")
	// the URI given to the loader has its fragment cleared
	cleared := false
	if a, ok := arg.(*ssa.Alloc); ok && a.Referrers() != nil {
		for _, r := range *a.Referrers() {
			if fa, ok := r.(*ssa.FieldAddr); ok && core.CanonFieldOf(fa.X.Type(), fa.Field) == "Fragment" && fa.Referrers() != nil {
				for _, r2 := range *fa.Referrers() {
					if st, ok := r2.(*ssa.Store); ok {
						if s, ok := constString(st.Val); ok && s == "" && core.Dominates(st, m.loaderFI().Top()) {
							cleared = true
						}
					}
				}
			}
		}
	}
	c.R.Check(cleared, rule, "fragmentless-key", c.pos(m.loaderCall), "the lookup/loader URI is a copy with the fragment cleared", "the URI used for the table lookups and the Loader still carries the fragment: a#x and a#y would be loaded as two documents")
}

// ruleForeignTablesMerged (C03 and C10): a *Schema obtained as the root of a
// Resolved other than the current one may be used as a key into the current
// side table only after that Resolved's side table was merged, on every path.
func ruleForeignTablesMerged(c *Ctx, rule string) {
	m := c.resolverModel(rule)
	if m == nil {
		return
	}
	fn := m.refFn
	fam := c.familyInstrs(fn)
	// the current Resolved: the resolver's parameter, or a helper's parameter that receives it
	isCurrent := func(v ssa.Value) bool {
		for _, s := range traceSourcesDeep(v) {
			if s == m.rsParam {
				return true
			}
		}
		return false
	}
	// loads of X.root where X is not the current Resolved
	type foreign struct {
		load *ssa.UnOp
		from ssa.Value // the *Resolved value
	}
	var foreigns []foreign
	seenI := map[ssa.Instruction]bool{}
	for _, fi := range fam {
		if seenI[fi.I] {
			continue
		}
		seenI[fi.I] = true
		ld, ok := fi.I.(*ssa.UnOp)
		if !ok || ld.Op != token.MUL {
			continue
		}
		fa, ok := ld.X.(*ssa.FieldAddr)
		if !ok || c.fieldName(fa.X.Type(), fa.Field) != "Resolved.root" {
			continue
		}
		if !isCurrent(fa.X) {
			foreigns = append(foreigns, foreign{ld, fa.X})
		}
	}
	// lookups in the current side table
	var lookups []*ssa.Lookup
	seenI = map[ssa.Instruction]bool{}
	for _, fi := range fam {
		if seenI[fi.I] {
			continue
		}
		seenI[fi.I] = true
		lk, ok := fi.I.(*ssa.Lookup)
		if !ok || !c.isMapTo(lk.X.Type(), "resolvedInfo") {
			continue
		}
		root, steps := c.accessPath(lk.X)
		if isCurrent(root) && pathString(steps) == "Resolved.resolvedInfos" {
			lookups = append(lookups, lk)
		}
	}
	// merge loops: a range over F.resolvedInfos whose body updates the current side table
	judgedMerge := map[*ssa.MapUpdate]bool{}
	mergeBlocks := func(f ssa.Value) map[*ssa.BasicBlock]bool {
		out := map[*ssa.BasicBlock]bool{}
		for _, fi := range fam {
			rg, ok := fi.I.(*ssa.Range)
			if !ok {
				continue
			}
			root, steps := c.accessPath(rg.X)
			if pathString(steps) != "Resolved.resolvedInfos" || !sharesSource(root, f) {
				continue
			}
			// there must be an update of the current table fed by this range
			updates := false
			core.EachInstr(rg.Parent(), func(j ssa.Instruction) {
				mu, ok := j.(*ssa.MapUpdate)
				if !ok {
					return
				}
				r2, st2 := c.accessPath(mu.Map)
				if isCurrent(r2) && pathString(st2) == "Resolved.resolvedInfos" {
					if ext, ok := mu.Value.(*ssa.Extract); ok {
						if nx, ok := ext.Tuple.(*ssa.Next); ok && nx.Iter == rg {
							updates = true
							if !judgedMerge[mu] {
								judgedMerge[mu] = true
								// the current document's own entries win: an entry is copied only where there is none yet
								onlyNew := false
								for _, g := range guardsOf(mu) {
									x, k, equal, ok := eqConst(g)
									if !ok || !k.IsNil() || !equal {
										continue
									}
									if lk, ok := x.(*ssa.Lookup); ok && (lk.Index == mu.Key || sharesSource(lk.Index, mu.Key)) {
										if r3, st3 := c.accessPath(lk.X); isCurrent(r3) && pathString(st3) == "Resolved.resolvedInfos" {
											onlyNew = true
										}
									}
								}
								c.R.Check(onlyNew, rule, core.FuncName(mu.Parent())+":merge:without-overwriting", c.pos(mu), "an entry of the other document's side table is copied only where the current one has none",
									"the merge of another document's side table overwrites entries the current document already has: a schema object that both documents contain (an alias of the root served by the Loader) gets the other document's base URI and resolved references, so its $ref is bound under the wrong base")
							}
						}
					}
				}
			})
			if updates {
				out[rg.Block()] = true
				// a merge written as a helper counts where the helper is called
				if li := liftTo(rg, fn); li != nil && li.Parent() == fn {
					out[li.Block()] = true
				}
			}
		}
		return out
	}
	n := 0
	for _, f := range foreigns {
		for _, lk := range lookups {
			if !flowsTo(f.load, lk.Index) {
				continue
			}
			n++
			through := mergeBlocks(f.from)
			ok := false
			if f.load.Parent() == lk.Parent() {
				ok = len(through) > 0 && mustPass(f.load.Block(), through, map[*ssa.BasicBlock]bool{lk.Block(): true})
				if through[lk.Block()] {
					ok = true
				}
			} else if len(through) > 0 {
				// the foreign root is obtained in a helper and looked up by its caller: every path from the load
				// to a return of the helper that hands the root on passes through the merge
				targets := map[*ssa.BasicBlock]bool{}
				for _, b := range f.load.Parent().Blocks {
					if ret, isRet := b.Instrs[len(b.Instrs)-1].(*ssa.Return); isRet && len(ret.Results) > 0 {
						for _, rv := range ret.Results {
							if flowsTo(f.load, rv) {
								targets[b] = true
							}
						}
					}
				}
				ok = len(targets) > 0 && mustPass(f.load.Block(), through, targets)
				if through[f.load.Block()] {
					ok = true
				}
			}
			construct := fmt.Sprintf("%s:root(%s)->lookup", core.FuncName(fn), shortValue(f.from))
			c.R.Check(ok, rule, construct, c.pos(lk), "the other document's side tables are merged into the current one on every path before its root is looked up",
				"the root of another Resolved ("+shortValue(f.from)+", e.g. a document found in the loader cache) is used as a key into the current side table on a path that does not merge that document's side tables first: the lookup yields nil and the anchor access dereferences it (cross-document cycle, or an alias, with an anchor fragment)")
		}
	}
	c.R.Floor(rule, "uses of a foreign root as a side-table key", n, 1)
}

func shortValue(v ssa.Value) string {
	if p, ok := v.(*ssa.Phi); ok && p.Comment != "" {
		return p.Comment
	}
	return v.Name()
}

func sharesSource(a, b ssa.Value) bool {
	if a == b {
		return true
	}
	sa, sb := traceSources(a), traceSources(b)
	for _, x := range sa {
		for _, y := range sb {
			if x == y {
				return true
			}
		}
	}
	return false
}

// flowsTo: value from reaches value to through phis and cells.
func flowsTo(from ssa.Value, to ssa.Value) bool {
	if from == to {
		return true
	}
	for _, s := range traceSourcesDeep(to) {
		if s == from {
			return true
		}
	}
	return false
}

func ruleC03NoFallback(c *Ctx) {
	const rule = "C03/no-fallback-target"
	m := c.resolverModel(rule)
	if m == nil {
		return
	}
	walker := c.pointerWalker(rule)
	n := 0
	core.EachInstr(m.refFn, func(i ssa.Instruction) {
		ret, ok := i.(*ssa.Return)
		if !ok || len(ret.Results) < 2 {
			return
		}
		if k, ok := ret.Results[0].(*ssa.Const); ok && k.IsNil() {
			return // failure return
		}
		n++
		construct := fmt.Sprintf("%s:return#%d", core.FuncName(m.refFn), n)
		okAll := true
		why := ""
		for _, s := range traceSources(ret.Results[0]) {
			switch x := s.(type) {
			case *ssa.Extract:
				call, isCall := x.Tuple.(*ssa.Call)
				if !(isCall && walker != nil && call.Call.StaticCallee() == walker && x.Index == 0) {
					okAll, why = false, "a tuple component that is not the pointer walker's result"
				}
			case *ssa.UnOp:
				// load of anchorInfo.schema from a cell filled by a two-result lookup under found
				fa, isFa := x.X.(*ssa.FieldAddr)
				if !isFa || c.fieldName(fa.X.Type(), fa.Field) != "anchorInfo.schema" {
					okAll, why = false, "a value that is not an anchor's schema"
					continue
				}
				found := false
				for _, g := range guardsOf(ret) {
					if ext, ok := g.Cond.(*ssa.Extract); ok && g.Pol && ext.Index == 1 {
						if lk, ok := ext.Tuple.(*ssa.Lookup); ok && lk.CommaOk {
							found = true
						}
					}
				}
				if !found {
					okAll, why = false, "an anchor entry used without testing that the lookup found it"
				}
			case *ssa.Field:
				if c.fieldName(x.X.Type(), x.Field) != "anchorInfo.schema" {
					okAll, why = false, "a value that is not an anchor's schema"
				}
			default:
				okAll, why = false, fmt.Sprintf("%s (%T)", s.Name(), s)
			}
		}
		c.R.Check(okAll, rule, construct, c.pos(ret), "a successful return yields the schema of an anchor found by a checked lookup, or the pointer walker's result",
			"the reference resolver can succeed with "+why+": a reference that designates nothing would silently select another schema (e.g. the document root)")
	})
	c.R.Floor(rule, "successful returns of the reference resolver", n, 2)
}

func ruleC03Base(c *Ctx) {
	const rule = "C03/base-of-enclosing-resource"
	m := c.resolverModel(rule)
	if m == nil {
		return
	}
	var sParam *ssa.Parameter
	for _, p := range m.refFn.Params {
		if c.isPkgNamed(p.Type(), "Schema") {
			sParam = p
		}
	}
	n := 0
	core.EachInstr(m.refFn, func(i ssa.Instruction) {
		call, ok := i.(*ssa.Call)
		if !ok || core.CalleeKey(&call.Call) != "net/url.URL.ResolveReference" {
			return
		}
		n++
		root, steps := c.accessPath(call.Call.Args[0])
		okShape := root == m.rsParam && pathString(steps) == "Resolved.resolvedInfos/[]/resolvedInfo.uri"
		okKey := false
		if okShape {
			// the key of the lookup is resolvedInfos[s].base
			kroot, ksteps := c.accessPath(steps[1].Key)
			if kroot == m.rsParam && pathString(ksteps) == "Resolved.resolvedInfos/[]/resolvedInfo.base" && ksteps[1].Key == sParam {
				okKey = true
			}
		}
		c.R.Check(okShape && okKey, rule, "reference-base", c.pos(call), "the reference is resolved against resolvedInfos[ resolvedInfos[s].base ].uri for the schema s that holds it",
			"the reference is not resolved against the URI of the base resource of the schema that holds it (receiver path "+pathString(steps)+")")
	})
	c.R.Floor(rule, "ResolveReference calls in the reference resolver", n, 1)
}

// Each $id: the URI registered in the URI table is the $id resolved against
// the parent base, the same value becomes the schema's uri, and the schema
// becomes the base of its subtree.
func ruleC03IDRegistered(c *Ctx) {
	const rule = "C03/id-registered-resolved"
	res := c.Closure(rule, "RES").Minus(c.Closure(rule, "EV"))
	n := 0
	for _, fn := range res.Sorted() {
		core.EachInstr(fn, func(i ssa.Instruction) {
			call, ok := i.(*ssa.Call)
			if !ok || core.CalleeKey(&call.Call) != "net/url.URL.ResolveReference" || !c.mentionsField(call.Call.Args[1], "Schema.ID", 6) {
				return
			}
			n++
			// receiver: the parent base's uri
			_, steps := c.accessPath(call.Call.Args[0])
			c.R.Check(len(steps) > 0 && steps[len(steps)-1].Field == "resolvedInfo.uri", rule, core.FuncName(fn)+":id-resolved-against-parent-base", c.pos(call), "the $id is resolved against the parent base's URI", "the $id is not resolved against the URI of the enclosing base resource")
			// the result is stored as the schema's uri and registered under its String()
			stored, registered := false, false
			if call.Referrers() != nil {
				for _, r := range *call.Referrers() {
					if st, ok := r.(*ssa.Store); ok {
						if fa, ok := st.Addr.(*ssa.FieldAddr); ok && c.fieldName(fa.X.Type(), fa.Field) == "resolvedInfo.uri" {
							stored = true
						}
					}
				}
			}
			core.EachInstr(fn, func(j ssa.Instruction) {
				mu, ok := j.(*ssa.MapUpdate)
				if !ok {
					return
				}
				_, st := c.accessPath(mu.Map)
				if pathString(st) != "Resolved.resolvedURIs" {
					return
				}
				if kc, ok := mu.Key.(*ssa.Call); ok && core.CalleeKey(&kc.Call) == "net/url.URL.String" {
					_, ks := c.accessPath(kc.Call.Args[0])
					if len(ks) > 0 && ks[len(ks)-1].Field == "resolvedInfo.uri" && core.Dominates(call, mu) {
						registered = true
					}
				}
			})
			c.R.Check(stored, rule, core.FuncName(fn)+":uri-stored", c.pos(call), "the resolved URI becomes the schema's URI", "the resolved $id is not recorded as the schema's URI")
			c.R.Check(registered, rule, core.FuncName(fn)+":uri-registered", c.pos(call), "the schema is registered in the URI table under its resolved URI", "the schema is not registered in the URI table under the string of its resolved URI: references to it by URI are treated as remote")
		})
	}
	c.R.Floor(rule, "$id resolutions", n, 1)
}

func init() {
	p := Properties["C03"]
	p.Rules = append(p.Rules, Rule{"C03/ref-uri-resolved", ruleC03RefURIResolved}, Rule{"C03/anchor-scope", ruleC03AnchorScope}, Rule{"C03/retrieval-uri-registered", ruleC03RetrievalRegistered})
}

// The URI used to find the target of a reference is, on every path, the
// reference resolved (RFC 3986, net/url) against the base: the struct copied
// into the fragment-less lookup URI comes only from ResolveReference(base, Parse(ref)).
func ruleC03RefURIResolved(c *Ctx) {
	const rule = "C03/ref-uri-resolved"
	m := c.resolverModel(rule)
	if m == nil {
		return
	}
	arg, ok := m.loaderArg.(*ssa.Alloc)
	if !ok {
		c.R.Unknown(rule, "lookup-uri", c.pos(m.loaderCall), "the URI given to the Loader is not a local copy")
		return
	}
	n := 0
	if arg.Referrers() != nil {
		for _, r := range *arg.Referrers() {
			st, ok := r.(*ssa.Store)
			if !ok || st.Addr != arg {
				continue
			}
			ld, ok := st.Val.(*ssa.UnOp)
			if !ok {
				c.R.Unknown(rule, "lookup-uri:copy", c.pos(st), "the lookup URI is not copied from a *url.URL")
				continue
			}
			n++
			okAll := true
			why := ""
			for _, s := range traceSources(ld.X) {
				call, isCall := s.(*ssa.Call)
				if !isCall || core.CalleeKey(&call.Call) != "net/url.URL.ResolveReference" {
					okAll, why = false, fmt.Sprintf("%s (%T)", s.Name(), s)
					continue
				}
				fromParse := false
				for _, a := range traceSources(call.Call.Args[1]) {
					if ex, ok := a.(*ssa.Extract); ok {
						if pc, ok := ex.Tuple.(*ssa.Call); ok && core.CalleeKey(&pc.Call) == "net/url.Parse" {
							fromParse = true
						}
					}
				}
				if !fromParse {
					okAll, why = false, "a ResolveReference whose argument is not the parsed reference"
				}
			}
			c.R.Check(okAll, rule, "lookup-uri:from-ResolveReference", c.pos(st), "the URI looked up is always ResolveReference(base URI, parsed reference)",
				"on some path the URI used to locate the target is "+why+", not the RFC 3986 resolution of the reference against the base: some syntactic forms of $ref (query-only, './', '../', empty path) would select the wrong resource")
		}
	}
	c.R.Floor(rule, "copies into the lookup URI", n, 1)
}

// Anchors are scoped to the base resource: the anchor table an anchor is
// entered in belongs to the same schema that is recorded as the base.
func ruleC03AnchorScope(c *Ctx) {
	const rule = "C03/anchor-scope"
	res := c.Closure(rule, "RES").Minus(c.Closure(rule, "EV"))
	n := 0
	for _, fn := range res.Sorted() {
		// the value stored as resolvedInfo.base in this function
		var baseVal ssa.Value
		core.EachInstr(fn, func(i ssa.Instruction) {
			if st, ok := i.(*ssa.Store); ok {
				if fa, ok := st.Addr.(*ssa.FieldAddr); ok && c.fieldName(fa.X.Type(), fa.Field) == "resolvedInfo.base" {
					baseVal = st.Val
				}
			}
		})
		core.EachInstr(fn, func(i ssa.Instruction) {
			call, ok := i.(*ssa.Call)
			if !ok {
				return
			}
			anchorArg := false
			var infoArg, owner ssa.Value
			for _, a := range call.Call.Args {
				if c.isDirectFieldLoad(a, "Schema.Anchor") || c.isDirectFieldLoad(a, "Schema.DynamicAnchor") {
					anchorArg = true
					owner = a.(*ssa.UnOp).X.(*ssa.FieldAddr).X // the schema that declares the anchor
				}
				if isPointer(a.Type()) && c.isPkgNamed(a.Type(), "resolvedInfo") {
					infoArg = a
				}
			}
			if !anchorArg || infoArg == nil {
				return
			}
			n++
			if baseVal == nil {
				// registration in a separate pass: the table is looked up under the base recorded for the declaring schema,
				// resolvedInfos[resolvedInfos[s].base] (or the value of a range over resolvedInfos whose key is s)
				okRec := false
				if lk, ok := infoArg.(*ssa.Lookup); ok {
					if ld, ok := lk.Index.(*ssa.UnOp); ok && ld.Op == token.MUL {
						if fa, ok := ld.X.(*ssa.FieldAddr); ok && c.fieldName(fa.X.Type(), fa.Field) == "resolvedInfo.base" {
							switch x := fa.X.(type) {
							case *ssa.Lookup:
								okRec = x.Index == owner || sharesSource(x.Index, owner)
							case *ssa.Extract:
								if nx, ok := x.Tuple.(*ssa.Next); ok && x.Index == 2 {
									for _, r := range *nx.Referrers() {
										if k, ok := r.(*ssa.Extract); ok && k.Index == 1 && (ssa.Value(k) == owner || sharesSource(k, owner)) {
											okRec = true
										}
									}
								}
							}
						}
					}
				}
				c.R.Check(okRec, rule, core.FuncName(fn)+":anchor-table-of-base", c.pos(call), "the anchor is entered in the table of the schema recorded as the base of the declaring schema",
					"the anchor table receiving the anchor is not the table of the base recorded for the schema that declares the anchor: the anchor becomes visible in the wrong resource")
				return
			}
			okPair := pairedLookup(c, infoArg, baseVal)
			if ld, isLoad := baseVal.(*ssa.UnOp); isLoad && !okPair {
				if cell := resolveCell(ld.X); cell != nil {
					okPair = lookupsFollowStores(infoArg, cell)
				}
			}
			c.R.Check(okPair, rule, core.FuncName(fn)+":anchor-table-of-base", c.pos(call), "the anchor is entered in the table of the schema recorded as base (pairwise over every way the base is chosen)",
				"the anchor table receiving the anchor does not belong to the schema recorded as the base on every path (e.g. after an $id established a new base, the parent's table is still used): the anchor becomes visible in the wrong resource")
		})
	}
	c.R.Floor(rule, "anchor registrations with a base table", n, 2)
}

// pairedLookup: info == resolvedInfos[base], edge by edge when both are phis of one block.
func pairedLookup(c *Ctx, info, base ssa.Value) bool {
	isLookupOf := func(i, b ssa.Value) bool {
		lk, ok := i.(*ssa.Lookup)
		if !ok {
			return false
		}
		return lk.Index == b
	}
	pi, ok1 := info.(*ssa.Phi)
	pb, ok2 := base.(*ssa.Phi)
	if ok1 && ok2 && pi.Block() == pb.Block() && len(pi.Edges) == len(pb.Edges) {
		for k := range pi.Edges {
			if !pairedLookup(c, pi.Edges[k], pb.Edges[k]) {
				return false
			}
		}
		return true
	}
	if ok1 != ok2 {
		return false
	}
	return isLookupOf(info, base)
}

func isPhi(v ssa.Value) bool { _, ok := v.(*ssa.Phi); return ok }

// The URI the document was retrieved from designates the root even when the root has an $id.
func ruleC03RetrievalRegistered(c *Ctx) {
	const rule = "C03/retrieval-uri-registered"
	res := c.Closure(rule, "RES").Minus(c.Closure(rule, "EV"))
	found := false
	for _, fn := range res.Sorted() {
		var urlParam *ssa.Parameter
		for _, p := range fn.Params {
			if isNamed(p.Type(), "net/url", "URL") {
				urlParam = p
			}
		}
		if urlParam == nil {
			continue
		}
		core.EachInstr(fn, func(i ssa.Instruction) {
			mu, ok := i.(*ssa.MapUpdate)
			if !ok {
				return
			}
			_, st := c.accessPath(mu.Map)
			if pathString(st) != "Resolved.resolvedURIs" {
				return
			}
			kc, ok := mu.Key.(*ssa.Call)
			if !ok || core.CalleeKey(&kc.Call) != "net/url.URL.String" || kc.Call.Args[0] != urlParam {
				return
			}
			_, vs := c.accessPath(mu.Value)
			if pathString(vs) == "Resolved.root" && len(guardsLocal(mu)) == 0 {
				found = true
				c.R.OK(rule, core.FuncName(fn)+":base-uri->root", c.pos(mu), "the retrieval/base URI is registered for the root unconditionally")
			}
		})
	}
	if !found {
		c.R.Bad(rule, "base-uri->root", "", "the URI a document was retrieved from (or the BaseURI option) is not registered as designating the root: when the root also has an $id, references through the retrieval URI are treated as remote and loaded again")
	}
}

// lookupsFollowStores: info is a lookup (or a phi of lookups) keyed by loads of
// the variable in cell; along every phi edge, each assignment to the variable
// that happens before the edge also happens before the lookup carried by the
// edge (the table is looked up again after the variable changed).
func lookupsFollowStores(info ssa.Value, cell *ssa.Alloc) bool {
	var stores []*ssa.Store
	core.EachInstr(cell.Parent(), func(i ssa.Instruction) {
		if st, ok := i.(*ssa.Store); ok && st.Addr == cell {
			stores = append(stores, st)
		}
	})
	keyedByCell := func(v ssa.Value) (*ssa.Lookup, bool) {
		lk, ok := v.(*ssa.Lookup)
		if !ok {
			return nil, false
		}
		ld, ok := lk.Index.(*ssa.UnOp)
		return lk, ok && resolveCell(ld.X) == cell
	}
	check := func(lk *ssa.Lookup, at ssa.Instruction) bool {
		for _, st := range stores {
			// stale: the variable can be assigned after the lookup and before the use
			if core.ReachableFromInstr(lk, st) && core.ReachableFromInstr(st, at) {
				return false
			}
		}
		return true
	}
	switch x := info.(type) {
	case *ssa.Phi:
		for k, e := range x.Edges {
			lk, ok := keyedByCell(e)
			if !ok {
				return false
			}
			pred := x.Block().Preds[k]
			if !check(lk, pred.Instrs[len(pred.Instrs)-1]) {
				return false
			}
		}
		return true
	default:
		lk, ok := keyedByCell(info)
		if !ok {
			return false
		}
		// used directly: every store to the variable must precede the lookup or not reach the use
		if refs := info.Referrers(); refs != nil {
			for _, r := range *refs {
				if !check(lk, r) {
					return false
				}
			}
		}
		return true
	}
}

func init() {
	p := Properties["C03"]
	p.Rules = append(p.Rules, Rule{"C03/ref-per-occurrence", ruleC03RefPerOccurrence})
}

// Each occurrence of $ref/$dynamicRef is resolved on its own (against its own
// base): what is stored as the resolved target is the result of the reference
// resolver called for that schema, never a value remembered from another occurrence.
func ruleC03RefPerOccurrence(c *Ctx) {
	const rule = "C03/ref-per-occurrence"
	m := c.resolverModel(rule)
	if m == nil {
		return
	}
	n := 0
	for _, fn := range c.Closure(rule, "RES").Minus(c.Closure(rule, "EV")).Sorted() {
		core.EachInstr(fn, func(i ssa.Instruction) {
			st, ok := i.(*ssa.Store)
			if !ok {
				return
			}
			fa, ok := st.Addr.(*ssa.FieldAddr)
			if !ok {
				return
			}
			fname := c.fieldName(fa.X.Type(), fa.Field)
			if fname != "resolvedInfo.resolvedRef" && fname != "resolvedInfo.resolvedDynamicRef" {
				return
			}
			n++
			okAll := true
			for _, s := range traceSources(st.Val) {
				ex, isEx := s.(*ssa.Extract)
				if !isEx {
					okAll = false
					continue
				}
				call, isCall := ex.Tuple.(*ssa.Call)
				if !isCall || call.Call.StaticCallee() != m.refFn {
					okAll = false
					continue
				}
				// the schema argument of the resolver is the schema whose info is written
				sArgOK := false
				_, steps := c.accessPath(structBase(fa.X))
				for _, a := range call.Call.Args {
					if len(steps) >= 2 && steps[len(steps)-1].Kind == "lookup" && steps[len(steps)-1].Key == a {
						sArgOK = true
					}
				}
				// a helper that is handed the schema and its info: at every call the info is the entry of that schema
				if pInfo, isParam := structBase(fa.X).(*ssa.Parameter); !sArgOK && isParam && c.P.OnlyStaticCallers(fn) {
					idxOf := func(p *ssa.Parameter) int {
						for k, q := range fn.Params {
							if q == p {
								return k
							}
						}
						return -1
					}
					ii := idxOf(pInfo)
					sites := c.P.CallIndex().Sites[fn]
					okSites := ii >= 0 && len(sites) > 0
					for _, site := range sites {
						args := site.Common().Args
						if ii >= len(args) {
							okSites = false
							continue
						}
						_, st2 := c.accessPath(structBase(args[ii]))
						if len(st2) == 0 {
							_, st2 = c.accessPath(args[ii])
						}
						okSite := false
						for _, a := range call.Call.Args {
							pa, isP := a.(*ssa.Parameter)
							if !isP {
								continue
							}
							if si := idxOf(pa); si >= 0 && si < len(args) && len(st2) >= 2 && st2[len(st2)-1].Kind == "lookup" && st2[len(st2)-1].Key == args[si] {
								okSite = true
							}
						}
						if !okSite {
							okSites = false
						}
					}
					if okSites {
						sArgOK = true
					}
				}
				if !sArgOK {
					okAll = false
				}
			}
			c.R.Check(okAll, rule, core.FuncName(fn)+":store("+fname+")", c.pos(st), "the stored target is the resolver's result for this very schema",
				"the target stored for a reference can come from somewhere other than the reference resolver called for this schema (e.g. a memo keyed by the reference text): the same text under a different base URI would be bound to another resource's subschema")
		})
	}
	c.R.Floor(rule, "stores of resolved reference targets", n, 2)
}

// sharesSourceDeep: the two values have a common origin, seen through transparent helpers.
func sharesSourceDeep(a, b ssa.Value) bool {
	if a == b {
		return true
	}
	sa, sb := traceSourcesDeep(a), traceSourcesDeep(b)
	for _, x := range sa {
		for _, y := range sb {
			if x == y {
				return true
			}
		}
	}
	return false
}

// structBase: the struct variable v is part of - looks out of nested (by-value) struct fields:
// for &info.inner.x it is info.
func structBase(v ssa.Value) ssa.Value {
	for {
		fa, ok := v.(*ssa.FieldAddr)
		if !ok {
			return v
		}
		if _, isStruct := core.StructField(fa.X.Type(), fa.Field).Type().Underlying().(*types.Struct); !isStruct {
			return v
		}
		v = fa.X
	}
}

func init() {
	p := Properties["C03"]
	p.Rules = append(p.Rules, Rule{"C03/base-uri-used", ruleC03BaseURIUsed})
}

// The retrieval URI given in ResolveOptions.BaseURI is the base of the root document: it is what the root's
// $id is resolved against and what the root is registered under. In Resolve, the URI handed to the document
// resolver for the root is the parsed BaseURI; an empty URL stands in only where BaseURI is the empty string.
func ruleC03BaseURIUsed(c *Ctx) {
	const rule = "C03/base-uri-used"
	m := c.resolverModel(rule)
	entry := c.entry(rule, "(*Schema).Resolve")
	if m == nil || entry == nil || m.docFn == nil {
		return
	}
	isURL := func(t types.Type) bool { return isNamed(derefType(t), "net/url", "URL") }
	var site *ssa.Call
	var arg ssa.Value
	c.eachFam(entry, func(i ssa.Instruction) {
		call, ok := i.(*ssa.Call)
		if !ok || call.Call.StaticCallee() != m.docFn {
			return
		}
		for _, a := range call.Call.Args {
			if isURL(a.Type()) && site == nil {
				site, arg = call, a
			}
		}
	})
	if site == nil {
		c.R.Unresolved(rule, "the call of the document resolver for the root in Resolve")
		return
	}
	emptyTested := func(at ssa.Instruction) bool {
		for _, g := range guardsOf(at) {
			bo, ok := g.Cond.(*ssa.BinOp)
			if !ok {
				continue
			}
			for _, pair := range [][2]ssa.Value{{bo.X, bo.Y}, {bo.Y, bo.X}} {
				if s, isK := constString(pair[1]); isK && s == "" && c.mentionsField(pair[0], "ResolveOptions.BaseURI", 4) {
					if (bo.Op == token.EQL && g.Pol) || (bo.Op == token.NEQ && !g.Pol) {
						return true
					}
				}
			}
		}
		return false
	}
	parsed, n := false, 0
	var walk func(v ssa.Value, at ssa.Instruction, seen map[ssa.Value]bool)
	walk = func(v ssa.Value, at ssa.Instruction, seen map[ssa.Value]bool) {
		if seen[v] {
			return
		}
		seen[v] = true
		switch x := v.(type) {
		case *ssa.Phi:
			for k, e := range x.Edges {
				pred := x.Block().Preds[k]
				walk(e, pred.Instrs[len(pred.Instrs)-1], seen)
			}
		case *ssa.Extract:
			call, ok := x.Tuple.(*ssa.Call)
			if !ok {
				return
			}
			if core.CalleeKey(&call.Call) == "net/url.Parse" {
				okArg := c.mentionsField(call.Call.Args[0], "ResolveOptions.BaseURI", 4)
				c.R.Check(okArg, rule, "root-base:parsed-from-BaseURI", c.pos(call), "the root's base is parsed from ResolveOptions.BaseURI", "the URI parsed for the root's base is not ResolveOptions.BaseURI")
				parsed = parsed || okArg
				// ... as it was given: no string function between the option and the parser, and no field of the parsed
				// URL rewritten afterwards (a trailing slash of a directory-style base is significant)
				verbatim := true
				for _, v := range backSlice(call.Call.Args[0], 12) {
					if tc, isCall := v.(*ssa.Call); isCall && tc != call {
						if k := core.CalleeKey(&tc.Call); strings.HasPrefix(k, "strings.") || strings.HasPrefix(k, "path.") || strings.HasPrefix(k, "path/filepath.") {
							verbatim = false
						}
					}
				}
				for _, f := range core.WithAnon(call.Parent()) {
					core.EachInstr(f, func(j ssa.Instruction) {
						if st, isSt := j.(*ssa.Store); isSt {
							if fa, isFA := st.Addr.(*ssa.FieldAddr); isFA && isNamed(derefType(fa.X.Type()), "net/url", "URL") {
								for _, src := range append(traceSources(fa.X), fa.X) {
									if src == ssa.Value(x) {
										verbatim = false
									}
								}
							}
						}
					})
				}
				c.R.Check(verbatim, rule, "root-base:verbatim", c.pos(call), "the BaseURI is parsed as given and the parsed URI is not rewritten", "the BaseURI option is passed through a string or path function before it is parsed, or a field of the parsed URI is rewritten: a directory-style base such as \"https://example.com/schemas/\" loses its trailing slash, relative references resolve one directory up, and the Loader is asked for (or the reference silently binds to) another document")
				return
			}
			if h := call.Call.StaticCallee(); h != nil && c.transparent(h) {
				core.EachInstr(h, func(j ssa.Instruction) {
					if ret, ok := j.(*ssa.Return); ok && x.Index < len(ret.Results) {
						walk(returnedValue(ret, x.Index), ret, seen)
					}
				})
			}
		case *ssa.Call:
			if h := x.Call.StaticCallee(); h != nil && c.transparent(h) {
				core.EachInstr(h, func(j ssa.Instruction) {
					if ret, ok := j.(*ssa.Return); ok && len(ret.Results) > 0 {
						walk(returnedValue(ret, 0), ret, seen)
					}
				})
			}
		case *ssa.Alloc:
			n++
			c.R.Check(emptyTested(at), rule, fmt.Sprintf("root-base:empty-url#%d", n), c.pos(at), "an empty URL is the root's base only where BaseURI is the empty string",
				"an empty URL is used as the base of the root document on a path where ResolveOptions.BaseURI is not known to be empty: the retrieval URI is then neither the base of the root's $id nor registered for the root, so a $ref to the document by its retrieval URI is treated as remote")
		case *ssa.Const:
			if x.IsNil() {
				return
			}
		case *ssa.UnOp:
			if cell := resolveCell(x.X); cell != nil {
				for _, r := range *cell.Referrers() {
					if st, ok := r.(*ssa.Store); ok && st.Addr == ssa.Value(cell) {
						walk(st.Val, st, seen)
					}
				}
			}
		}
	}
	walk(arg, site, map[ssa.Value]bool{})
	c.R.Check(parsed, rule, "root-base:from-BaseURI", c.pos(site), "the base handed to the document resolver can be the parsed BaseURI", "the base URI handed to the document resolver for the root never comes from ResolveOptions.BaseURI: the option is ignored")
}

// fixedArrayElems: v is the element variable of a range over a local array literal; the values the literal holds.
func fixedArrayElems(v ssa.Value) []ssa.Value {
	var al *ssa.Alloc
	switch x := v.(type) {
	case *ssa.Index:
		if ld, ok := x.X.(*ssa.UnOp); ok && ld.Op == token.MUL {
			al, _ = ld.X.(*ssa.Alloc)
		}
	case *ssa.UnOp:
		if ia, ok := x.X.(*ssa.IndexAddr); ok && x.Op == token.MUL {
			al, _ = ia.X.(*ssa.Alloc)
		}
	}
	if al == nil || al.Referrers() == nil {
		return nil
	}
	if _, isArr := al.Type().Underlying().(*types.Pointer).Elem().Underlying().(*types.Array); !isArr {
		return nil
	}
	var out []ssa.Value
	for _, r := range *al.Referrers() {
		ia, ok := r.(*ssa.IndexAddr)
		if !ok || ia.Referrers() == nil {
			continue
		}
		if _, isConst := ia.Index.(*ssa.Const); !isConst {
			continue
		}
		for _, r2 := range *ia.Referrers() {
			if st, ok := r2.(*ssa.Store); ok && st.Addr == ssa.Value(ia) {
				out = append(out, st.Val)
			}
		}
	}
	return out
}

// inFixedLoopBefore: instruction a is executed on every iteration of a loop over a fixed, positive number of
// elements (range over an array), and d comes after that loop: a is executed before d on every path.
func inFixedLoopBefore(a, d ssa.Instruction) bool {
	ab, db := a.Block(), d.Block()
	for _, hb := range ab.Parent().Blocks {
		if len(hb.Instrs) == 0 || len(hb.Succs) != 2 {
			continue
		}
		iff, ok := hb.Instrs[len(hb.Instrs)-1].(*ssa.If)
		if !ok {
			continue
		}
		cmp, ok := iff.Cond.(*ssa.BinOp)
		if !ok || cmp.Op != token.LSS {
			continue
		}
		n, ok := cmp.Y.(*ssa.Const)
		if !ok || n.Value == nil || n.Value.Kind() != constant.Int {
			continue
		}
		if cnt, exact := constant.Int64Val(n.Value); !exact || cnt <= 0 {
			continue
		}
		// the counter: -1, then +1 per iteration
		add, ok := cmp.X.(*ssa.BinOp)
		if !ok || add.Op != token.ADD {
			continue
		}
		phi, ok := add.X.(*ssa.Phi)
		if !ok || phi.Block() != hb {
			continue
		}
		body, done := hb.Succs[0], hb.Succs[1]
		if !body.Dominates(ab) || !done.Dominates(db) || len(done.Preds) != 1 {
			continue
		}
		good := true
		for _, p := range hb.Preds {
			if hb.Dominates(p) && !ab.Dominates(p) {
				good = false // an iteration can end without passing a
			}
		}
		if good {
			return true
		}
	}
	return false
}
