package rules

import (
	"go/constant"
	"go/token"
	"go/types"
	"strings"

	"golang.org/x/tools/go/ssa"

	"verif/checker/core"
)

// pathStep is one selection in an access path: a field, a map lookup or an index.
type pathStep struct {
	Field string    // "Owner.name" for a field step
	Key   ssa.Value // key/index value for lookup and index steps
	Kind  string    // field | lookup | index | deref
}

// accessPath decomposes a value into root and selections, following loads,
// field addresses, lookups and single-definition cells:
// st.rs.resolvedInfos[base].anchors  ->  root st, [state.rs, Resolved.resolvedInfos, lookup(base), resolvedInfo.anchors].
func (c *Ctx) accessPath(v ssa.Value) (ssa.Value, []pathStep) {
	var rev []pathStep
	for depth := 0; depth < 24; depth++ {
		switch x := v.(type) {
		case *ssa.UnOp:
			if x.Op != token.MUL {
				return v, reverseSteps(rev)
			}
			if cell := resolveCell(x.X); cell != nil {
				// a local variable cell: follow its single definition
				st := cellStores(cell)
				if len(st) == 1 {
					v = st[0]
					continue
				}
				return v, reverseSteps(rev)
			}
			v = x.X
		case *ssa.Parameter:
			// the parameter of a transparent helper with a single call site denotes the argument passed there
			if fn := x.Parent(); fn != nil && fn.Parent() == nil && c.transparent(fn) {
				if args := c.P.ArgsFor(x); len(args) == 1 {
					v = args[0]
					continue
				}
			}
			return v, reverseSteps(rev)
		case *ssa.FieldAddr:
			rev = append(rev, pathStep{Kind: "field", Field: c.fieldName(x.X.Type(), x.Field)})
			v = x.X
		case *ssa.Field:
			rev = append(rev, pathStep{Kind: "field", Field: c.fieldName(x.X.Type(), x.Field)})
			v = x.X
		case *ssa.Lookup:
			rev = append(rev, pathStep{Kind: "lookup", Key: x.Index})
			v = x.X
		case *ssa.IndexAddr:
			rev = append(rev, pathStep{Kind: "index", Key: x.Index})
			v = x.X
		case *ssa.Index:
			rev = append(rev, pathStep{Kind: "index", Key: x.Index})
			v = x.X
		case *ssa.Extract:
			if lk, ok := x.Tuple.(*ssa.Lookup); ok && x.Index == 0 {
				v = lk
				continue
			}
			return v, reverseSteps(rev)
		case *ssa.ChangeType:
			v = x.X
		default:
			return v, reverseSteps(rev)
		}
	}
	return v, reverseSteps(rev)
}

func reverseSteps(in []pathStep) []pathStep {
	out := make([]pathStep, len(in))
	for i := range in {
		out[len(in)-1-i] = in[i]
	}
	return out
}

func (c *Ctx) fieldName(t types.Type, idx int) string {
	f := core.StructField(t, idx).Name()
	if n, ok := types.Unalias(derefType(t)).(*types.Named); ok {
		if n.Obj().Pkg() == c.P.Types {
			// canonical (pinned-tree) spelling of unexported declarations that were merely renamed
			co, cf := core.CanonField(n.Obj().Name(), f)
			return co + "." + cf
		}
		return n.Obj().Name() + "." + f
	}
	return "struct." + f
}

// canonFieldName: the canonical name of field idx of (a pointer to) a package struct.
func (c *Ctx) canonFieldName(t types.Type, idx int) string {
	s := c.fieldName(t, idx)
	return s[strings.Index(s, ".")+1:]
}

// pathString renders the field steps: "state.rs/Resolved.resolvedInfos/[]/resolvedInfo.anchors".
func pathString(steps []pathStep) string {
	var parts []string
	for _, s := range steps {
		switch s.Kind {
		case "field":
			parts = append(parts, s.Field)
		default:
			parts = append(parts, "[]")
		}
	}
	return strings.Join(parts, "/")
}

// mentionsField: the value is computed from a load of the given field (bounded depth).
func (c *Ctx) mentionsField(v ssa.Value, field string, depth int) bool {
	if v == nil || depth == 0 {
		return false
	}
	switch x := v.(type) {
	case *ssa.Parameter:
		for _, src := range c.paramSources(x) {
			if c.mentionsField(src, field, depth-1) {
				return true
			}
		}
		return false
	case *ssa.UnOp:
		if fa, ok := x.X.(*ssa.FieldAddr); ok && x.Op == token.MUL {
			if c.readFieldName(fa.X.Type(), fa.Field) == field {
				return true
			}
			return c.mentionsField(fa.X, field, depth-1)
		}
		if cell := resolveCell(x.X); cell != nil && x.Op == token.MUL {
			for _, sv := range cellStores(cell) {
				if c.mentionsField(sv, field, depth-1) {
					return true
				}
			}
			return false
		}
		return c.mentionsField(x.X, field, depth-1)
	case *ssa.Field:
		if c.readFieldName(x.X.Type(), x.Field) == field {
			return true
		}
		return c.mentionsField(x.X, field, depth-1)
	case *ssa.IndexAddr:
		return c.mentionsField(x.X, field, depth-1)
	case *ssa.Index:
		return c.mentionsField(x.X, field, depth-1)
	case *ssa.Next:
		return c.mentionsField(x.Iter, field, depth-1)
	case *ssa.Range:
		return c.mentionsField(x.X, field, depth-1)
	case *ssa.BinOp:
		return c.mentionsField(x.X, field, depth-1) || c.mentionsField(x.Y, field, depth-1)
	case *ssa.Phi:
		for _, e := range x.Edges {
			if c.mentionsField(e, field, depth-1) {
				return true
			}
		}
		// a phi produced by && / ||: the tests that select its edges are part of the condition
		for _, p := range x.Block().Preds {
			if ifi, ok := p.Instrs[len(p.Instrs)-1].(*ssa.If); ok && c.mentionsField(ifi.Cond, field, depth-1) {
				return true
			}
			for _, pp := range p.Preds {
				if ifi, ok := pp.Instrs[len(pp.Instrs)-1].(*ssa.If); ok && len(p.Preds) == 1 && c.mentionsField(ifi.Cond, field, depth-1) {
					return true
				}
			}
		}
	case *ssa.Call:
		for _, a := range x.Call.Args {
			if c.mentionsField(a, field, depth-1) {
				return true
			}
		}
	case *ssa.Extract:
		return c.mentionsField(x.Tuple, field, depth-1)
	case *ssa.Lookup:
		return c.mentionsField(x.X, field, depth-1) || c.mentionsField(x.Index, field, depth-1)
	case *ssa.MakeInterface:
		return c.mentionsField(x.X, field, depth-1)
	case *ssa.ChangeType:
		return c.mentionsField(x.X, field, depth-1)
	case *ssa.Convert:
		return c.mentionsField(x.X, field, depth-1)
	case *ssa.Slice:
		return c.mentionsField(x.X, field, depth-1)
	}
	return false
}

// guardAtoms lists (cond, polarity) pairs guarding an instruction's block.
type guardAtom struct {
	Cond ssa.Value
	Pol  bool
	At   ssa.Instruction
	Succ int // index of the successor of At's block on which the guard holds
}

// guardsOf returns the branch outcomes that necessarily hold when i executes:
// (cond, polarity) of every If whose successor on that polarity has the If
// block as its only predecessor and dominates i's block. Unlike control
// dependence this never reports a condition whose other outcome can also lead
// to i (early returns, || chains).
func guardsOf(i ssa.Instruction) []guardAtom {
	out := guardsLocal(i)
	// inside a helper with a single call site: what holds at the call holds here too
	if site := soleCaller(i.Parent()); site != nil {
		out = append(out, guardsOf(site)...)
	}
	// the body of a range-over-func loop runs where the loop stands
	if body := i.Parent(); isRangeFuncBody(body) {
		if at := rangeFuncCall(body); at != nil {
			out = append(out, guardsOf(at)...)
		}
	}
	// a test of what a classifying helper returned (an enumeration value, a nil or non-nil error) stands for the
	// conditions under which the helper returns that
	out = append(out, classifierGuards(out)...)
	return out
}

// classifierGuards: for each guard `H(...)#k == C` (or != C, or a nil test of an error result) on a result of a
// package function H, the guards that hold at every return of H that produces such a value.
func classifierGuards(gs []guardAtom) []guardAtom {
	var out []guardAtom
	for _, g := range gs {
		x, k, equal, ok := eqConst(g)
		if !ok {
			continue
		}
		var call *ssa.Call
		idx := 0
		switch v := x.(type) {
		case *ssa.Extract:
			call, _ = v.Tuple.(*ssa.Call)
			idx = v.Index
		case *ssa.Call:
			call = v
		}
		if call == nil {
			continue
		}
		h := call.Call.StaticCallee()
		if h == nil || len(h.Blocks) == 0 || curCtx == nil || !curCtx.P.InPkg(h) || h.Signature.Results().Len() <= idx {
			continue
		}
		// returns of h whose result idx agrees with the guard
		var common []guardAtom
		first, any, decidable := true, false, true
		core.EachInstr(h, func(j ssa.Instruction) {
			ret, ok := j.(*ssa.Return)
			if !ok || idx >= len(ret.Results) || ret.Block() == h.Recover {
				return
			}
			rv := ret.Results[idx]
			var same bool
			if k.IsNil() {
				rc, isConst := rv.(*ssa.Const)
				isNil := isConst && rc.IsNil()
				if !isConst {
					// a fresh error or another call's result: non-nil only if it is a constructor of errors
					if cc, isCall := rv.(*ssa.Call); isCall {
						switch core.CalleeKey(&cc.Call) {
						case "fmt.Errorf", "errors.New":
						default:
							decidable = false
						}
					} else {
						decidable = false
					}
				}
				same = isNil
			} else {
				rc, isConst := rv.(*ssa.Const)
				if !isConst || rc.Value == nil || k.Value == nil {
					decidable = false
					return
				}
				same = constant.Compare(rc.Value, token.EQL, k.Value)
			}
			if same != equal {
				return
			}
			any = true
			local := guardsLocal(ret)
			if first {
				common, first = local, false
				return
			}
			var keep []guardAtom
			for _, a := range common {
				for _, b := range local {
					if a.Cond == b.Cond && a.Pol == b.Pol {
						keep = append(keep, a)
						break
					}
				}
			}
			common = keep
		})
		if any && decidable {
			out = append(out, common...)
		}
	}
	return out
}

// normCond strips negations, and replaces a boolean variable that is assigned exactly once (ok := A; ... if ok,
// also when a closure captured it) by the value assigned.
func normCond(cond ssa.Value, pol bool) (ssa.Value, bool) {
	for n := 0; n < 8; n++ {
		if u, ok := cond.(*ssa.UnOp); ok && u.Op == token.NOT {
			cond, pol = u.X, !pol
			continue
		}
		if ld, ok := cond.(*ssa.UnOp); ok && ld.Op == token.MUL && isBoolType(ld.Type()) {
			if cell := resolveCell(ld.X); cell != nil {
				if stores := cellStores(cell); len(stores) == 1 && !cellEscapes(cell) {
					cond = stores[0]
					continue
				}
			}
		}
		break
	}
	return cond, pol
}

// cellEscapes: the variable's address is used for something other than loads, stores and closure capture.
func cellEscapes(a *ssa.Alloc) bool {
	if a.Referrers() == nil {
		return false
	}
	for _, r := range *a.Referrers() {
		switch x := r.(type) {
		case *ssa.Store:
			if x.Val == ssa.Value(a) {
				return true
			}
		case *ssa.UnOp, *ssa.MakeClosure, *ssa.DebugRef:
		default:
			return true
		}
	}
	return false
}

// guardsLocal: the guards of i inside its own function only.
func guardsLocal(i ssa.Instruction) []guardAtom {
	fn := i.Parent()
	var out []guardAtom
	for _, b := range fn.Blocks {
		ifi, ok := b.Instrs[len(b.Instrs)-1].(*ssa.If)
		if !ok || len(b.Succs) != 2 || b.Succs[0] == b.Succs[1] {
			continue
		}
		for si, s := range b.Succs {
			if len(s.Preds) != 1 || !s.Dominates(i.Block()) {
				continue
			}
			cond, pol := normCond(ifi.Cond, si == 0)
			out = append(out, guardAtom{cond, pol, ifi, si})
			out = append(out, expandBoolPhi(cond, pol, ifi, si, 3)...)
		}
	}
	return out
}

// expandBoolPhi: a condition computed by && or || is a phi of booleans (a switch case `A && B`,
// or `ok := A && B; if ok`). When the phi is known true and all edges but one are the constant
// false, the remaining operand is true and so is everything that guards the block it comes from
// (the earlier operands); dually for || and a phi known false.
func expandBoolPhi(cond ssa.Value, pol bool, at ssa.Instruction, succ int, depth int) []guardAtom {
	phi, ok := cond.(*ssa.Phi)
	if !ok || depth == 0 || !isBoolType(phi.Type()) {
		return nil
	}
	rest := -1
	for k, e := range phi.Edges {
		if kc, isK := e.(*ssa.Const); isK && kc.Value != nil && (kc.Value.String() == "true") != pol {
			continue // this edge would give the other outcome
		}
		if rest >= 0 {
			return nil // more than one edge can give this outcome
		}
		rest = k
	}
	if rest < 0 {
		return nil
	}
	var out []guardAtom
	e, pred := phi.Edges[rest], phi.Block().Preds[rest]
	if _, isK := e.(*ssa.Const); !isK {
		c2, p2 := e, pol
		for {
			if u, ok := c2.(*ssa.UnOp); ok && u.Op == token.NOT {
				c2, p2 = u.X, !p2
				continue
			}
			break
		}
		out = append(out, guardAtom{c2, p2, at, succ})
		out = append(out, expandBoolPhi(c2, p2, at, succ, depth-1)...)
	}
	// what holds on arrival in the predecessor the value comes from
	for _, g := range guardsLocal(pred.Instrs[len(pred.Instrs)-1]) {
		out = append(out, guardAtom{g.Cond, g.Pol, at, succ})
	}
	return out
}

// controlGuards returns the transitive control dependences of i (as a set of
// branch outcomes); use it to detect that an instruction is conditional on
// something unexpected, not to prove that a condition holds.
func controlGuards(i ssa.Instruction) []guardAtom {
	fi := core.Info(i.Parent())
	var out []guardAtom
	for _, br := range fi.Guards(i.Block()) {
		cond, pol := br.Cond()
		if cond == nil {
			continue
		}
		cond, pol = normCond(cond, pol)
		out = append(out, guardAtom{cond, pol, br.Block.Instrs[len(br.Block.Instrs)-1], br.Succ})
	}
	if site := soleCaller(i.Parent()); site != nil {
		out = append(out, controlGuards(site)...)
	}
	return out
}

// eqConst matches cond as (x == const) / (x != const) and returns x, the
// constant and whether the guard holds when x equals the constant.
func eqConst(g guardAtom) (x ssa.Value, k *ssa.Const, equal bool, ok bool) {
	bo, isBin := g.Cond.(*ssa.BinOp)
	if !isBin || (bo.Op != token.EQL && bo.Op != token.NEQ) {
		return nil, nil, false, false
	}
	if kk, isK := bo.Y.(*ssa.Const); isK {
		x, k = bo.X, kk
	} else if kk, isK := bo.X.(*ssa.Const); isK {
		x, k = bo.Y, kk
	} else {
		return nil, nil, false, false
	}
	equal = (bo.Op == token.EQL) == g.Pol
	return x, k, equal, true
}

func constInt(k *ssa.Const) (int64, bool) {
	if k == nil || k.Value == nil || k.Value.Kind() != constant.Int {
		return 0, false
	}
	v, ok := constant.Int64Val(k.Value)
	return v, ok
}

// draftConst returns the value of the package constant named name (draft7, draft2020).
func (c *Ctx) draftConst(name string) (int64, bool) {
	obj := c.P.Types.Scope().Lookup(core.CurConst(name))
	k, ok := obj.(*types.Const)
	if !ok {
		return 0, false
	}
	return constant.Int64Val(k.Val())
}

// guardedByDraft: the instruction executes only when Resolved.draft equals the named draft constant.
func (c *Ctx) guardedByDraft(i ssa.Instruction, draft string) bool {
	want, ok := c.draftConst(draft)
	if !ok {
		return false
	}
	for _, g := range guardsOf(i) {
		if c.guardIsDraft(g, want) {
			return true
		}
	}
	return false
}

func (c *Ctx) guardIsDraft(g guardAtom, want int64) bool {
	x, k, equal, ok := eqConst(g)
	if !ok || !equal {
		return false
	}
	kv, ok := constInt(k)
	return ok && kv == want && c.mentionsField(x, "Resolved.draft", 4)
}

// evalStringFn evaluates a pure SSA function over one concrete binding of its
// string-valued inputs (finite-partition abstract evaluation, DESIGN 3.6).
// bind gives the concrete string for input values (the parameter, or a load of a field).
func evalStringFn(fn *ssa.Function, bind func(v ssa.Value) (string, bool)) (constant.Value, bool) {
	return evalPureFn(fn, func(v ssa.Value) (constant.Value, bool) {
		if s, ok := bind(v); ok {
			return constant.MakeString(s), true
		}
		return nil, false
	})
}

// evalPureFn evaluates a pure SSA function over one concrete binding of its inputs.
func evalPureFn(fn *ssa.Function, bind func(v ssa.Value) (constant.Value, bool)) (constant.Value, bool) {
	if len(fn.Blocks) == 0 {
		return nil, false
	}
	var prev *ssa.BasicBlock
	cur := fn.Blocks[0]
	var eval func(v ssa.Value, depth int) (constant.Value, bool)
	eval = func(v ssa.Value, depth int) (constant.Value, bool) {
		if depth == 0 {
			return nil, false
		}
		if cv, ok := bind(v); ok {
			return cv, true
		}
		switch x := v.(type) {
		case *ssa.Const:
			if x.Value == nil {
				return nil, false
			}
			return x.Value, true
		case *ssa.BinOp:
			a, ok1 := eval(x.X, depth-1)
			b, ok2 := eval(x.Y, depth-1)
			if !ok1 || !ok2 {
				return nil, false
			}
			switch x.Op {
			case token.EQL, token.NEQ, token.LSS, token.GTR, token.LEQ, token.GEQ:
				return constant.MakeBool(constant.Compare(a, x.Op, b)), true
			case token.LAND, token.LOR, token.AND, token.OR:
				return constant.BinaryOp(a, x.Op, b), true
			}
			return nil, false
		case *ssa.UnOp:
			if x.Op == token.NOT {
				a, ok := eval(x.X, depth-1)
				if !ok {
					return nil, false
				}
				return constant.UnaryOp(token.NOT, a, 0), true
			}
			return nil, false
		case *ssa.Phi:
			for i, p := range x.Block().Preds {
				if p == prev {
					return eval(x.Edges[i], depth-1)
				}
			}
			return nil, false
		case *ssa.ChangeType:
			return eval(x.X, depth-1)
		case *ssa.Convert:
			return eval(x.X, depth-1)
		case *ssa.Call:
			// pure functions of package strings on concrete values (constant folding)
			key := core.CalleeKey(&x.Call)
			var args []string
			for _, a := range x.Call.Args {
				av, ok := eval(a, depth-1)
				if !ok || av.Kind() != constant.String {
					return nil, false
				}
				args = append(args, constant.StringVal(av))
			}
			switch {
			case key == "strings.TrimSuffix" && len(args) == 2:
				return constant.MakeString(strings.TrimSuffix(args[0], args[1])), true
			case key == "strings.TrimPrefix" && len(args) == 2:
				return constant.MakeString(strings.TrimPrefix(args[0], args[1])), true
			case key == "strings.TrimRight" && len(args) == 2:
				return constant.MakeString(strings.TrimRight(args[0], args[1])), true
			case key == "strings.TrimSpace" && len(args) == 1:
				return constant.MakeString(strings.TrimSpace(args[0])), true
			case key == "strings.ToLower" && len(args) == 1:
				return constant.MakeString(strings.ToLower(args[0])), true
			case key == "strings.HasPrefix" && len(args) == 2:
				return constant.MakeBool(strings.HasPrefix(args[0], args[1])), true
			case key == "strings.HasSuffix" && len(args) == 2:
				return constant.MakeBool(strings.HasSuffix(args[0], args[1])), true
			case key == "strings.Contains" && len(args) == 2:
				return constant.MakeBool(strings.Contains(args[0], args[1])), true
			case key == "strings.EqualFold" && len(args) == 2:
				return constant.MakeBool(strings.EqualFold(args[0], args[1])), true
			}
			return nil, false
		}
		return nil, false
	}
	for steps := 0; steps < 200; steps++ {
		last := cur.Instrs[len(cur.Instrs)-1]
		switch x := last.(type) {
		case *ssa.Return:
			if len(x.Results) != 1 {
				return nil, false
			}
			// phis in the return block depend on prev, which is still the predecessor
			return eval(x.Results[0], 12)
		case *ssa.Jump:
			prev, cur = cur, cur.Succs[0]
		case *ssa.If:
			cv, ok := eval(x.Cond, 12)
			if !ok || cv.Kind() != constant.Bool {
				return nil, false
			}
			if constant.BoolVal(cv) {
				prev, cur = cur, cur.Succs[0]
			} else {
				prev, cur = cur, cur.Succs[1]
			}
		default:
			return nil, false
		}
	}
	return nil, false
}

// skipGuards returns the branch outcomes that decide whether instruction at is
// skipped while the computation goes on: a transitive control dependence g of
// at whose other outcome (1) cannot reach at any more (in the same loop
// iteration) and (2) reaches code that also follows at (a rejoin point, a
// return reachable from at, or the next iteration). Early exits (the other
// outcome only leaves through a return that does not follow at) are not skips,
// and neither are earlier decisions after which at is still reached.
func skipGuards(at ssa.Instruction) []guardAtom {
	var out []guardAtom
	ab := at.Block()
	after := map[*ssa.BasicBlock]bool{}
	for _, b := range at.Parent().Blocks {
		if core.Reachable(ab, b, nil) {
			after[b] = true
		}
	}
	for _, g := range controlGuards(at) {
		ifi, ok := g.At.(*ssa.If)
		if !ok {
			continue
		}
		gb := ifi.Block()
		other := gb.Succs[1-g.Succ]
		if other == ab || reachAvoid(other, ab, map[*ssa.BasicBlock]bool{gb: true}) {
			continue
		}
		rejoin := false
		seen := map[*ssa.BasicBlock]bool{}
		stack := []*ssa.BasicBlock{other}
		for len(stack) > 0 && !rejoin {
			b := stack[len(stack)-1]
			stack = stack[:len(stack)-1]
			if seen[b] || b == ab || b == gb {
				continue
			}
			seen[b] = true
			if after[b] {
				rejoin = true
			}
			stack = append(stack, b.Succs...)
		}
		if rejoin {
			out = append(out, g)
		}
	}
	if site := soleCaller(at.Parent()); site != nil {
		out = append(out, skipGuards(site)...)
	}
	return out
}

// reachAvoid: to is reachable from from (inclusive) without entering avoid.
func reachAvoid(from, to *ssa.BasicBlock, avoid map[*ssa.BasicBlock]bool) bool {
	if from == to {
		return true
	}
	if avoid[from] {
		return false
	}
	return core.Reachable(from, to, avoid)
}

// fieldAliases: unexported struct fields of the package every store into which is a plain copy of one other
// field (a derived field filled when its struct is built): reading the copy is reading the original.
func (c *Ctx) fieldAliases() map[string]string {
	if c.aliases != nil {
		return c.aliases
	}
	c.aliases = map[string]string{}
	type info struct {
		srcs map[string]bool
		bad  bool
	}
	fields := map[string]*info{}
	name := func(t types.Type, idx int) (string, bool) {
		n, ok := types.Unalias(derefType(t)).(*types.Named)
		if !ok || n.Obj().Pkg() != c.P.Types {
			return "", false
		}
		fv := core.StructField(t, idx)
		if fv == nil || fv.Exported() {
			return "", false
		}
		co, cf := core.CanonField(n.Obj().Name(), fv.Name())
		return co + "." + cf, true
	}
	for _, fn := range c.P.Funcs {
		core.EachInstr(fn, func(i ssa.Instruction) {
			st, ok := i.(*ssa.Store)
			if !ok {
				return
			}
			fa, ok := st.Addr.(*ssa.FieldAddr)
			if !ok {
				return
			}
			key, ok := name(fa.X.Type(), fa.Field)
			if !ok {
				return
			}
			inf := fields[key]
			if inf == nil {
				inf = &info{srcs: map[string]bool{}}
				fields[key] = inf
			}
			ld, isLd := st.Val.(*ssa.UnOp)
			if !isLd || ld.Op != token.MUL {
				inf.bad = true
				return
			}
			fa2, isFa := ld.X.(*ssa.FieldAddr)
			if !isFa {
				inf.bad = true
				return
			}
			var src string
			if n2, ok := types.Unalias(derefType(fa2.X.Type())).(*types.Named); ok {
				co, cf := core.CanonField(n2.Obj().Name(), core.StructField(fa2.X.Type(), fa2.Field).Name())
				src = co + "." + cf
			}
			if src == "" || src == key {
				inf.bad = true
				return
			}
			inf.srcs[src] = true
		})
	}
	for key, inf := range fields {
		if core.InBaselineField(key) {
			continue // a field of the pinned tree keeps its own identity
		}
		if !inf.bad && len(inf.srcs) == 1 {
			for src := range inf.srcs {
				c.aliases[key] = src
			}
		}
	}
	return c.aliases
}

// readFieldName: fieldName for a field that is being READ: a new (non-baseline) field that only ever holds a
// copy of another field (st.draft = rs.draft, filled when the struct is built) reads as that field.
func (c *Ctx) readFieldName(t types.Type, idx int) string {
	n := c.fieldName(t, idx)
	if a, ok := c.fieldAliases()[n]; ok {
		return a
	}
	return n
}
