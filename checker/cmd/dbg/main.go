package main

import (
	"fmt"
	"os"

	"verif/checker/core"
)

func main() {
	p, err := core.Load(core.Config{Repo: "/repo"})
	if err != nil {
		fmt.Println(err)
		os.Exit(2)
	}
	fmt.Println("funcs", len(p.Funcs), "files", p.Files, "pkgs", p.NPkgs)
	entry := p.MethodOf(os.Args[1], os.Args[2])
	if entry == nil {
		entry = p.FuncNamed(os.Args[2])
	}
	cl := p.Closure("X", p.VTA, entry)
	fmt.Println("closure", len(cl.Set), "reflective", cl.Reflective)
	for _, f := range cl.Sorted() {
		fmt.Println("  ", core.FuncName(f))
	}
	tr := core.NewTracer(p, cl, p.VTA)
	for _, f := range cl.Sorted() {
		for _, w := range tr.Writes(f) {
			interesting := false
			for l := range w.Targets {
				if !(l.Root.Kind == core.RFresh && cl.Has(l.Root.Fn)) && l.Root.Kind != core.RTemp {
					interesting = true
				}
			}
			if len(w.Targets) == 0 {
				interesting = true
			}
			if interesting || len(os.Args) > 3 {
				fmt.Printf("%s %s %s:\n", p.Pos(core.InstrPos(w.Instr)), core.FuncName(f), w.Kind)
				for _, l := range w.Targets.Sorted() {
					fmt.Println("      ", l)
				}
			}
		}
	}
	for _, u := range tr.Undecided {
		fmt.Println("UNDECIDED", u)
	}
}
