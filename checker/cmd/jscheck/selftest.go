package main

import (
	"encoding/json"
	"fmt"

	"verif/checker/rules"
)

func selftestMain(prop, repo, verif, only string) {
	if only != "" {
		corpus, err := rules.LoadCorpus(verif)
		if err != nil {
			fmt.Println(err)
			return
		}
		for _, m := range corpus.Mutants {
			if m.Name == only {
				r := rules.RunMutant(m, prop, repo, verif)
				b, _ := json.MarshalIndent(r, "", " ")
				fmt.Println(string(b))
			}
		}
		return
	}
	res := rules.SelfTest(prop, repo, verif).(map[string]any)
	if rs, ok := res["results"].([]rules.MutantResult); ok {
		for _, r := range rs {
			fmt.Printf("%-14s %-40s %v\n", r.Verdict, r.Name, r.Rules)
		}
	}
	fmt.Println(res["counts"])
}
