// jscheck decides the static clauses of one property of google/jsonschema-go.
//
//	jscheck -prop C07 -tier quick|thorough [-repo /repo] [-verif /verif]
package main

import (
	"encoding/json"
	"flag"
	"fmt"
	"os"
	"runtime/debug"
	"sort"

	"verif/checker/core"
	"verif/checker/rules"
)

func main() {
	prop := flag.String("prop", "", "property id")
	tier := flag.String("tier", "quick", "quick or thorough")
	repo := flag.String("repo", "/repo", "repository root")
	verif := flag.String("verif", "/verif", "verification directory (evidence, known findings)")
	noSelf := flag.Bool("noselftest", false, "skip the checker self-test in the thorough tier")
	list := flag.Bool("list", false, "list properties")
	selfOnly := flag.Bool("selftest", false, "run only the checker self-test (mutant corpus) of the property and print the verdicts")
	only := flag.String("mutant", "", "with -selftest: run only this mutant and print the checker output")
	all := flag.Bool("all", false, "regression helper: load the repository once and run the quick tier of every property; evidence and known findings of property P live in <verif>/P; prints one line `ALL-FIRED P:rule,rule, Q:rule, ...`")
	genBase := flag.Bool("gen-baseline", false, "print the baseline of unexported declarations of the repository (core/baseline_names.json)")
	flag.Parse()
	if *genBase {
		prog, err := core.Load(core.Config{Repo: *repo})
		if err != nil {
			fmt.Fprintln(os.Stderr, err)
			os.Exit(2)
		}
		snap := core.Snapshot(prog.Types)
		snap.Funcs = core.SnapshotFuncs(prog)
		b, _ := json.MarshalIndent(snap, "", " ")
		fmt.Println(string(b))
		return
	}
	if t := os.Getenv("VERIF_TIER"); t != "" && !isFlagSet("tier") {
		*tier = t
	}
	if *list {
		var ids []string
		for id := range rules.Properties {
			ids = append(ids, id)
		}
		sort.Strings(ids)
		for _, id := range ids {
			fmt.Println(id)
		}
		return
	}
	if *all {
		os.Exit(runAll(*repo, *verif))
	}
	p := rules.Properties[*prop]
	if p == nil {
		fmt.Fprintf(os.Stderr, "unknown property %q\n", *prop)
		os.Exit(2)
	}
	if *selfOnly {
		selftestMain(p.ID, *repo, *verif, *only)
		return
	}
	rep := core.NewReport(p.ID, *tier)
	type run struct {
		cfg   core.Config
		graph string
	}
	runs := []run{{core.Config{Repo: *repo}, "vta"}}
	if *tier == "thorough" {
		runs = append(runs,
			run{core.Config{Repo: *repo}, "cha"},
			run{core.Config{Repo: *repo, GOOS: "linux", GOARCH: "386"}, "vta"},
			run{core.Config{Repo: *repo, GOOS: "windows", GOARCH: "amd64"}, "vta"},
			run{core.Config{Repo: *repo, Tags: "verif"}, "vta"},
		)
	}
	var configs []string
	filesSeen := map[string]bool{}
	progs := map[string]*core.Prog{}
	for _, r := range runs {
		label := r.cfg.String() + " graph=" + r.graph
		if r.cfg.GOOS == "" {
			label = "default graph=" + r.graph
		}
		configs = append(configs, label)
		rep.SetConfig(label)
		key := r.cfg.String()
		prog := progs[key]
		if prog == nil {
			var err error
			prog, err = core.Load(r.cfg)
			if err != nil {
				rep.Bad(p.ID+"/load", "load:"+label, "", "cannot load and type-check the repository: "+err.Error())
				continue
			}
			progs[key] = prog
		}
		for _, f := range prog.Files {
			filesSeen[f] = true
		}
		ctx := rules.NewCtx(prog, rep, r.graph, *tier)
		for _, rule := range p.Rules {
			func() {
				defer func() {
					if e := recover(); e != nil {
						rep.Unknown(rule.ID, "checker-panic", "", fmt.Sprintf("the rule panicked: %v\n%s", e, debug.Stack()))
					}
				}()
				rule.Run(ctx)
			}()
		}
		rep.Info["functions_analysed"] = len(prog.Funcs)
		if rn := core.RecognisedRenames(); len(rn) > 0 {
			rep.Info["renames_recognised"] = rn
		}
	}
	// every .go file of the package directory must have been analysed in some configuration
	rules.CheckFilesCovered(rep, p.ID, *repo, filesSeen)
	extra := map[string]any{"build_configs": configs}
	if *tier == "thorough" && !*noSelf {
		extra["selftest"] = rules.SelfTest(p.ID, *repo, *verif)
	}
	os.Exit(rep.Finish(*verif, p.Explanation, p.NotDecided, rules.TrustedBase, extra))
}

func isFlagSet(name string) bool {
	set := false
	flag.Visit(func(f *flag.Flag) {
		if f.Name == name {
			set = true
		}
	})
	return set
}

// runAll: the quick tier of every property on one loaded program (used by the seeded / benign regression scripts).
func runAll(repo, verif string) int {
	prog, err := core.Load(core.Config{Repo: repo})
	if err != nil {
		fmt.Println("ALL-FIRED load:" + err.Error())
		return 1
	}
	var ids []string
	for id := range rules.Properties {
		ids = append(ids, id)
	}
	sort.Strings(ids)
	out := "ALL-FIRED"
	rc := 0
	for _, id := range ids {
		p := rules.Properties[id]
		rep := core.NewReport(p.ID, "quick")
		rep.SetConfig("default graph=vta")
		ctx := rules.NewCtx(prog, rep, "vta", "quick")
		for _, rule := range p.Rules {
			func() {
				defer func() {
					if e := recover(); e != nil {
						rep.Unknown(rule.ID, "checker-panic", "", fmt.Sprintf("the rule panicked: %v\n%s", e, debug.Stack()))
					}
				}()
				rule.Run(ctx)
			}()
		}
		filesSeen := map[string]bool{}
		for _, f := range prog.Files {
			filesSeen[f] = true
		}
		rules.CheckFilesCovered(rep, p.ID, repo, filesSeen)
		if code := rep.Finish(verif+"/"+id, p.Explanation, p.NotDecided, rules.TrustedBase, map[string]any{"build_configs": []string{"default graph=vta"}}); code != 0 {
			rc = 1
			fired := map[string]bool{}
			for _, o := range rep.Obs {
				if o.Status == core.Violated || o.Status == core.Undecided {
					fired[o.Rule] = true
				}
			}
			var fs []string
			for f := range fired {
				fs = append(fs, f)
			}
			sort.Strings(fs)
			out += " " + id + ":"
			for _, f := range fs {
				out += f + ","
			}
		}
	}
	fmt.Println(out)
	return rc
}
