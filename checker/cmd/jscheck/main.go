package main

func main() {}
