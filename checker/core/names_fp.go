package core

import (
	"go/constant"
	"go/types"
	"sort"

	"golang.org/x/tools/go/ssa"
)

// SnapshotFuncs lists the renameable functions and methods of the package with a fingerprint of their bodies.
func SnapshotFuncs(p *Prog) []BaselineDecl {
	q := qualifierFor(p.Types)
	var out []BaselineDecl
	for _, fn := range p.Funcs {
		if fn.Parent() != nil || fn.Synthetic != "" || fn.Object() == nil || fn.Origin() != nil {
			continue
		}
		obj, ok := fn.Object().(*types.Func)
		if !ok || obj.Pkg() != p.Types {
			continue
		}
		sig := obj.Type().(*types.Signature)
		exported := obj.Exported()
		if recv := sig.Recv(); recv != nil {
			if n := recvNamed(recv.Type()); n != nil && !n.Obj().Exported() {
				exported = false
			}
		}
		if exported {
			continue
		}
		fp := map[string]bool{}
		for _, f := range WithAnon(fn) {
			EachInstr(f, func(i ssa.Instruction) {
				switch x := i.(type) {
				case ssa.CallInstruction:
					c := x.Common()
					if callee := c.StaticCallee(); callee != nil && p.InPkg(callee) {
						if callee.Parent() == nil {
							fp["call-pkg:"+canonTypeString(sigString(callee.Signature, q))] = true
						}
					} else {
						fp["call:"+calleeKey(c)] = true
					}
				case *ssa.FieldAddr:
					fp["field:"+fieldStep(StructField(x.X.Type(), x.Field), x.X.Type())] = true
				case *ssa.Field:
					fp["field:"+fieldStep(StructField(x.X.Type(), x.Field), x.X.Type())] = true
				}
				for _, op := range i.Operands(nil) {
					if op == nil || *op == nil {
						continue
					}
					if k, ok := (*op).(*ssa.Const); ok && k.Value != nil && k.Value.Kind() == constant.String {
						s := constant.StringVal(k.Value)
						if len(s) > 40 {
							s = s[:40]
						}
						fp["str:"+s] = true
					}
				}
			})
		}
		var list []string
		for k := range fp {
			list = append(list, k)
		}
		sort.Strings(list)
		out = append(out, BaselineDecl{Name: funcDeclName(obj), Type: sigString(sig, q), FP: list})
	}
	sort.Slice(out, func(i, j int) bool { return out[i].Name < out[j].Name })
	return out
}

func canonTypeString(s string) string {
	if names == nil {
		return s
	}
	return rewriteIdents(s, names.TypeCanon, nil)
}
