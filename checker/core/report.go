package core

import (
	"bufio"
	"encoding/json"
	"fmt"
	"os"
	"path/filepath"
	"sort"
	"strings"
	"time"
)

// Status of an obligation.
type Status string

const (
	Discharged   Status = "discharged"
	Violated     Status = "violated"
	KnownFinding Status = "known-finding"
	Undecided    Status = "undecided"
)

// Obligation is one thing a rule had to establish, keyed by rule+construct.
type Obligation struct {
	Rule       string `json:"rule"`
	Construct  string `json:"construct"`
	Status     Status `json:"status"`
	Pos        string `json:"pos,omitempty"`
	Msg        string `json:"msg,omitempty"`
	NonTrivial bool   `json:"non_trivial,omitempty"` // required a flow, dominance or effect argument
	Config     string `json:"config,omitempty"`
}

// Report collects the obligations of one property check.
type Report struct {
	Property string
	Tier     string
	Start    time.Time
	Obs      []*Obligation
	Floors   []string // messages about instance floors
	Info     map[string]any
	Notes    []string
	index    map[string]*Obligation
	curCfg   string
}

func NewReport(prop, tier string) *Report {
	return &Report{Property: prop, Tier: tier, Start: time.Now(), Info: map[string]any{}, index: map[string]*Obligation{}}
}

func (r *Report) SetConfig(c string) { r.curCfg = c }

func (r *Report) add(rule, construct string, st Status, pos, msg string, nontrivial bool) {
	key := rule + "|" + construct
	if o, ok := r.index[key]; ok {
		// the worst status wins across build configurations / repeated sites
		if rank(st) > rank(o.Status) {
			o.Status, o.Pos, o.Msg, o.Config = st, pos, msg, r.curCfg
		}
		return
	}
	o := &Obligation{Rule: rule, Construct: construct, Status: st, Pos: pos, Msg: msg, NonTrivial: nontrivial, Config: r.curCfg}
	r.index[key] = o
	r.Obs = append(r.Obs, o)
}

func rank(s Status) int {
	switch s {
	case Violated:
		return 3
	case Undecided:
		return 2
	case KnownFinding:
		return 1
	}
	return 0
}

// OK records a discharged obligation.
func (r *Report) OK(rule, construct, pos, msg string) {
	r.add(rule, construct, Discharged, pos, msg, true)
}

// OKTable records an obligation discharged by a table lookup (trivial).
func (r *Report) OKTable(rule, construct, pos, msg string) {
	r.add(rule, construct, Discharged, pos, msg, false)
}

// Bad records a violated obligation.
func (r *Report) Bad(rule, construct, pos, msg string) {
	r.add(rule, construct, Violated, pos, msg, true)
}

// Unknown records an obligation the checker could not decide; it fails the check.
func (r *Report) Unknown(rule, construct, pos, msg string) {
	r.add(rule, construct, Undecided, pos, msg, true)
}

// Check records OK or Bad.
func (r *Report) Check(cond bool, rule, construct, pos, okMsg, badMsg string) bool {
	if cond {
		r.OK(rule, construct, pos, okMsg)
	} else {
		r.Bad(rule, construct, pos, badMsg)
	}
	return cond
}

// Floor fails the rule when fewer instances than confirmed by hand were found.
func (r *Report) Floor(rule, what string, got, min int) {
	if got < min {
		r.Bad(rule, "floor:"+what, "", fmt.Sprintf("instance floor: found %d %s, at least %d were confirmed by hand on the pinned tree; the rule would pass vacuously", got, what, min))
	} else {
		r.Floors = append(r.Floors, fmt.Sprintf("%s: %d %s (floor %d)", rule, got, what, min))
	}
}

// Unresolved reports an anchor that could not be resolved by role.
func (r *Report) Unresolved(rule, anchor string) {
	r.Bad(rule, "unresolved-anchor:"+anchor, "", "kind=unresolved-anchor: "+anchor+" could not be identified in the program; the rule cannot certify anything")
}

type finding struct {
	kind, property, rule, construct, text string
}

func loadFindings(path string) []finding {
	f, err := os.Open(path)
	if err != nil {
		return nil
	}
	defer f.Close()
	var out []finding
	sc := bufio.NewScanner(f)
	for sc.Scan() {
		line := strings.TrimSpace(sc.Text())
		if line == "" || strings.HasPrefix(line, "#") {
			continue
		}
		var fd finding
		switch {
		case strings.HasPrefix(line, "finding:"):
			fd.kind = "finding"
			line = strings.TrimSpace(strings.TrimPrefix(line, "finding:"))
		case strings.HasPrefix(line, "fixed:"):
			fd.kind = "fixed"
			line = strings.TrimSpace(strings.TrimPrefix(line, "fixed:"))
		default:
			continue
		}
		rest := []string{}
		for _, tok := range strings.Fields(line) {
			switch {
			case strings.HasPrefix(tok, "property=") && fd.property == "":
				fd.property = strings.TrimPrefix(tok, "property=")
			case strings.HasPrefix(tok, "rule=") && fd.rule == "":
				fd.rule = strings.TrimPrefix(tok, "rule=")
			case strings.HasPrefix(tok, "construct=") && fd.construct == "":
				fd.construct = strings.TrimPrefix(tok, "construct=")
			default:
				rest = append(rest, tok)
			}
		}
		fd.text = strings.Join(rest, " ")
		out = append(out, fd)
	}
	return out
}

// Finish applies the known-findings file, prints the verdict lines, writes
// the evidence file and returns the exit code.
func (r *Report) Finish(verifDir string, explanation string, notDecided []string, trusted []string, extra map[string]any) int {
	for _, fd := range loadFindings(filepath.Join(verifDir, "known_findings.txt")) {
		if fd.kind != "finding" || fd.property != r.Property {
			continue
		}
		for _, o := range r.Obs {
			if o.Status == Violated && o.Rule == fd.rule && o.Construct == fd.construct {
				o.Status = KnownFinding
			}
		}
	}
	sort.SliceStable(r.Obs, func(i, j int) bool {
		if r.Obs[i].Rule != r.Obs[j].Rule {
			return r.Obs[i].Rule < r.Obs[j].Rule
		}
		return r.Obs[i].Construct < r.Obs[j].Construct
	})
	var nViol, nKnown, nDis, nNon int
	rules := map[string]bool{}
	var lines []string
	if os.Getenv("JSCHECK_DUMP") != "" {
		for _, o := range r.Obs {
			fmt.Printf("OBLIGATION %s %s %s %v: %s\n", o.Rule, o.Pos, o.Construct, o.Status, o.Msg)
		}
	}
	for _, o := range r.Obs {
		rules[o.Rule] = true
		if o.NonTrivial {
			nNon++
		}
		switch o.Status {
		case Discharged:
			nDis++
		case KnownFinding:
			nKnown++
			fmt.Printf("KNOWN-FINDING: property=%s %s %s %s: %s\n", r.Property, o.Rule, o.Pos, o.Construct, o.Msg)
		case Violated, Undecided:
			nViol++
			lines = append(lines, fmt.Sprintf("%s %s %s [%s]: %s: %s", o.Rule, o.Pos, o.Construct, o.Config, o.Status, o.Msg))
		}
	}
	outDir := filepath.Join(verifDir, "out")
	os.MkdirAll(outDir, 0o755)
	replay := filepath.Join(outDir, r.Property+"."+r.Tier+".violations.txt")
	os.Remove(replay)
	if nViol > 0 {
		os.WriteFile(replay, []byte(strings.Join(lines, "\n")+"\n"), 0o644)
		for _, l := range lines {
			fmt.Printf("  %s\n", l)
		}
		fmt.Printf("VIOLATION property=%s replay=%s\n", r.Property, replay)
	}
	// evidence
	var samples []any
	perRule := map[string]int{}
	for _, o := range r.Obs {
		if perRule[o.Rule] < 2 || o.Status != Discharged {
			perRule[o.Rule]++
			if len(samples) < 60 {
				samples = append(samples, o)
			}
		}
	}
	var ruleList []string
	for k := range rules {
		ruleList = append(ruleList, k)
	}
	sort.Strings(ruleList)
	byRule := map[string]map[string]int{}
	for _, o := range r.Obs {
		m := byRule[o.Rule]
		if m == nil {
			m = map[string]int{}
			byRule[o.Rule] = m
		}
		m[string(o.Status)]++
	}
	cov := map[string]any{
		"explanation":         explanation,
		"not_decided":         notDecided,
		"obligations":         len(r.Obs),
		"discharged":          nDis,
		"known_findings":      nKnown,
		"violated":            nViol,
		"evaluations":         len(r.Obs),
		"distinct_nontrivial": nNon,
		"rule":                "one obligation per rule+construct enumerated from the type-checked program of /repo's working tree; non-trivial = required a dataflow, dominance, control-dependence or effect argument rather than a table lookup",
		"rules":               ruleList,
		"obligations_by_rule": byRule,
		"instance_floors":     r.Floors,
		"samples":             samples,
		"checker_cmd":         strings.Join(os.Args, " "),
		"trusted_base":        trusted,
		"exhaustive":          false,
	}
	for k, v := range r.Info {
		cov[k] = v
	}
	for k, v := range extra {
		cov[k] = v
	}
	if len(r.Notes) > 0 {
		cov["notes"] = r.Notes
	}
	seed := 0
	fmt.Sscan(os.Getenv("VERIF_SEED"), &seed)
	ev := map[string]any{
		"property_id": r.Property,
		"tier":        r.Tier,
		"seed":        seed,
		"level":       "other",
		"coverage":    cov,
		"assumptions": trusted,
		"wall_s":      time.Since(r.Start).Seconds(),
		"violations":  nViol,
	}
	evDir := filepath.Join(verifDir, "evidence")
	os.MkdirAll(evDir, 0o755)
	b, _ := json.MarshalIndent(ev, "", " ")
	if err := os.WriteFile(filepath.Join(evDir, r.Property+".json"), append(b, '\n'), 0o644); err != nil {
		fmt.Println("cannot write evidence:", err)
		return 2
	}
	fmt.Printf("%s %s: %d obligations, %d discharged, %d known findings, %d violated/undecided (%.1fs)\n",
		r.Property, r.Tier, len(r.Obs), nDis, nKnown, nViol, time.Since(r.Start).Seconds())
	if nViol > 0 {
		return 1
	}
	return 0
}
