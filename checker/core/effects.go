package core

import (
	"go/types"
	"strings"

	"golang.org/x/tools/go/ssa"
)

// Write is one instruction that modifies memory, with the locations it may modify.
type Write struct {
	Instr   ssa.Instruction
	Kind    string // store, mapupdate, delete, clear, copy, append, mutator:<callee>, reflect:<method>, recvmethod:<callee>
	Targets LocSet
}

// mutated argument indices of standard-library functions that write through an argument.
var mutators = map[string][]int{
	"sort.Sort": {0}, "sort.Stable": {0}, "sort.Slice": {0}, "sort.SliceStable": {0}, "sort.Strings": {0}, "sort.Ints": {0}, "sort.Float64s": {0},
	"slices.Sort": {0}, "slices.SortFunc": {0}, "slices.SortStableFunc": {0}, "slices.Reverse": {0}, "slices.Insert": {0}, "slices.Delete": {0},
	"slices.DeleteFunc": {0}, "slices.Replace": {0}, "slices.Compact": {0}, "slices.CompactFunc": {0},
	"maps.Copy": {0}, "maps.Insert": {0}, "maps.DeleteFunc": {0},
	"encoding/json.Unmarshal": {1}, "encoding/json.Decoder.Decode": {1},
	"encoding/binary.bigEndian.PutUint64": {1}, "encoding/binary.bigEndian.PutUint32": {1}, "encoding/binary.bigEndian.PutUint16": {1},
	"encoding/binary.littleEndian.PutUint64": {1}, "encoding/binary.littleEndian.PutUint32": {1},
	"math/rand.Shuffle": {}, "io.ReadFull": {1}, "reflect.Copy": {0},
	"fmt.Appendf": {0}, "fmt.Append": {0}, "fmt.Appendln": {0}, "strconv.AppendInt": {0}, "strconv.AppendQuote": {0}, "unicode/utf8.AppendRune": {0},
	"sync/atomic.StoreInt32": {0}, "sync/atomic.StoreInt64": {0}, "sync/atomic.AddInt32": {0}, "sync/atomic.AddInt64": {0}, "sync/atomic.StorePointer": {0},
	"fmt.Sscan": {1}, "fmt.Sscanf": {2}, "fmt.Fscan": {1},
}

// reflect.Value methods that mutate what the handle refers to.
var reflectMutators = map[string]bool{
	"Set": true, "SetBool": true, "SetBytes": true, "SetCap": true, "SetComplex": true, "SetFloat": true, "SetInt": true, "SetLen": true,
	"SetMapIndex": true, "SetPointer": true, "SetString": true, "SetUint": true, "SetZero": true, "SetIterKey": true, "SetIterValue": true,
	"Grow": true, "Clear": true, "Send": true, "TrySend": true,
}

// methods with pointer receivers on standard-library types that do not modify
// the receiver (or are documented safe for concurrent use).
func pureRecvMethod(pkg, typ, m string) bool {
	switch pkg + "." + typ {
	case "regexp.Regexp":
		return m != "Longest"
	case "net/url.URL":
		return m != "UnmarshalBinary"
	case "strings.Replacer", "sync.Map", "sync.Once", "sync.Mutex", "sync.RWMutex", "sync.Pool", "sync.WaitGroup":
		return true // documented safe for concurrent use
	case "math/big.Rat", "math/big.Int", "math/big.Float":
		for _, p := range []string{"Set", "Add", "Sub", "Mul", "Quo", "Neg", "Abs", "Inv", "Scan", "Unmarshal", "GobDecode", "Exp", "Div", "Mod", "Rem", "Lsh", "Rsh", "And", "Or", "Xor", "Not", "Sqrt", "Rand", "Binomial", "GCD", "ModInverse", "ModSqrt", "Parse", "Copy", "Fill"} {
			if strings.HasPrefix(m, p) {
				return false
			}
		}
		return true
	case "hash/maphash.Hash":
		return m == "Sum64" || m == "Seed" || m == "Size" || m == "BlockSize"
	case "reflect.MapIter":
		return m != "Reset"
	case "reflect.rtype", "reflect.Value":
		return true
	case "encoding/json.Number", "encoding/json.RawMessage":
		return m != "UnmarshalJSON"
	case "time.Time", "time.Location":
		return !strings.HasPrefix(m, "Unmarshal") && !strings.HasPrefix(m, "GobDecode")
	}
	return false
}

// IsSyncMapCall reports a method call on sync.Map.
func IsSyncMapCall(c *ssa.CallCommon) bool {
	return strings.HasPrefix(calleeKey(c), "sync.Map.")
}

// CalleeKey exposes the canonical callee name "pkgpath[.Recv].Name".
func CalleeKey(c *ssa.CallCommon) string { return calleeKey(c) }

// Writes enumerates the writes of fn.
func (t *Tracer) Writes(fn *ssa.Function) []Write {
	var out []Write
	objs := func(v ssa.Value) LocSet { return t.Obj(v) }
	elems := func(v ssa.Value) LocSet { return plusAll(t.Obj(v), "[]") }
	EachInstr(fn, func(i ssa.Instruction) {
		switch x := i.(type) {
		case *ssa.Store:
			out = append(out, Write{x, "store", objs(x.Addr)})
		case *ssa.MapUpdate:
			out = append(out, Write{x, "mapupdate", elems(x.Map)})
		case *ssa.Send:
			out = append(out, Write{x, "send", elems(x.Chan)})
		case ssa.CallInstruction:
			c := x.Common()
			key := calleeKey(c)
			args := c.Args
			switch {
			case key == "builtin.delete" || key == "builtin.clear":
				out = append(out, Write{x, strings.TrimPrefix(key, "builtin."), elems(args[0])})
			case key == "builtin.copy":
				out = append(out, Write{x, "copy", elems(args[0])})
			case key == "builtin.append":
				out = append(out, Write{x, "append", elems(args[0])})
			case strings.HasPrefix(key, "reflect.Value."):
				m := strings.TrimPrefix(key, "reflect.Value.")
				if reflectMutators[m] {
					tg := LocSet{}
					if m == "SetMapIndex" {
						tg = t.handleElemsFix(args[0])
					} else {
						tg = objs(args[0])
					}
					out = append(out, Write{x, "reflect:" + m, tg})
				}
			default:
				if idxs, ok := mutators[key]; ok {
					tg := LocSet{}
					for _, ai := range idxs {
						if ai < len(args) {
							a := peelInterface(args[ai])
							if _, isPtr := a.Type().Underlying().(*types.Pointer); isPtr {
								tg.addAll(objs(a))
							} else {
								tg.addAll(elems(a))
							}
						}
					}
					out = append(out, Write{x, "mutator:" + key, tg})
					return
				}
				// pointer-receiver methods of standard-library types
				if f := c.StaticCallee(); f != nil && !t.P.InPkg(f) && f.Signature.Recv() != nil && len(args) > 0 {
					if _, isPtr := f.Signature.Recv().Type().(*types.Pointer); isPtr {
						pkg := ""
						if f.Pkg != nil {
							pkg = f.Pkg.Pkg.Path()
						} else if o := f.Object(); o != nil && o.Pkg() != nil {
							pkg = o.Pkg().Path()
						}
						if !pureRecvMethod(pkg, recvName(f.Signature.Recv().Type()), f.Name()) {
							out = append(out, Write{x, "recvmethod:" + key, objs(args[0])})
						}
					}
				}
			}
		}
	})
	return out
}

func (t *Tracer) handleElemsFix(h ssa.Value) LocSet {
	for {
		t.round++
		t.grew = false
		r := t.handleElems(h)
		if !t.grew {
			return r
		}
	}
}

// ReflectMutatorCalls lists calls of mutating reflect.Value methods in fn.
func ReflectMutatorCalls(fn *ssa.Function) []ssa.CallInstruction {
	var out []ssa.CallInstruction
	EachInstr(fn, func(i ssa.Instruction) {
		if c, ok := i.(ssa.CallInstruction); ok {
			key := calleeKey(c.Common())
			if strings.HasPrefix(key, "reflect.Value.") && reflectMutators[strings.TrimPrefix(key, "reflect.Value.")] {
				out = append(out, c)
			}
			if key == "reflect.Copy" {
				out = append(out, c)
			}
		}
	})
	return out
}
