// Package core holds the shared static-analysis machinery: loading /repo,
// SSA, call graphs, closures of entry points, reporting.
package core

import (
	"fmt"
	"go/token"
	"go/types"
	"os"
	"path/filepath"
	"sort"
	"strings"

	"golang.org/x/tools/go/callgraph"
	"golang.org/x/tools/go/callgraph/cha"
	"golang.org/x/tools/go/callgraph/vta"
	"golang.org/x/tools/go/packages"
	"golang.org/x/tools/go/ssa"
	"golang.org/x/tools/go/ssa/ssautil"
)

// Config selects one build configuration of the repository.
type Config struct {
	Repo   string
	GOOS   string
	GOARCH string
	Tags   string
}

func (c Config) String() string {
	s := c.GOOS + "/" + c.GOARCH
	if c.Tags != "" {
		s += " tags=" + c.Tags
	}
	return s
}

// Prog is the type-checked program of one build configuration.
type Prog struct {
	Cfg    Config
	Fset   *token.FileSet
	Pkg    *packages.Package
	Types  *types.Package
	Info   *types.Info
	SSA    *ssa.Program
	SSAPkg *ssa.Package
	// Funcs are all functions that belong to the package: declared functions
	// and methods, anonymous functions, instantiations of its generics.
	Funcs  []*ssa.Function
	inPkg  map[*ssa.Function]bool
	VTA    *callgraph.Graph
	CHA    *callgraph.Graph
	Files  []string // .go files of the package that were analysed
	NPkgs  int
	allFns map[*ssa.Function]bool
}

// Load type-checks the repository and builds SSA and call graphs.
func Load(cfg Config) (*Prog, error) {
	env := os.Environ()
	env = append(env, "GOFLAGS=-mod=mod", "GOPROXY=off", "GOSUMDB=off", "GOTOOLCHAIN=local", "GOWORK=off", "CGO_ENABLED=0")
	if cfg.GOOS != "" {
		env = append(env, "GOOS="+cfg.GOOS)
	}
	if cfg.GOARCH != "" {
		env = append(env, "GOARCH="+cfg.GOARCH)
	}
	pc := &packages.Config{Mode: packages.LoadAllSyntax, Dir: cfg.Repo, Env: env}
	if cfg.Tags != "" {
		pc.BuildFlags = []string{"-tags=" + cfg.Tags}
	}
	pkgs, err := packages.Load(pc, "./...")
	if err != nil {
		return nil, err
	}
	if len(pkgs) == 0 {
		return nil, fmt.Errorf("no packages loaded from %s", cfg.Repo)
	}
	var target *packages.Package
	for _, p := range pkgs {
		if len(p.Errors) > 0 {
			return nil, fmt.Errorf("package %s has errors: %v", p.PkgPath, p.Errors)
		}
		if p.Types != nil && p.Types.Scope().Lookup("Schema") != nil && p.Types.Scope().Lookup("Resolved") != nil {
			target = p
		}
	}
	if target == nil {
		return nil, fmt.Errorf("unresolved-anchor: no package declaring Schema and Resolved among %d packages", len(pkgs))
	}
	names = matchNames(target.Types)
	curPkg = target.Types
	prog, _ := ssautil.AllPackages(pkgs, ssa.InstantiateGenerics)
	prog.Build()
	p := &Prog{Cfg: cfg, Fset: target.Fset, Pkg: target, Types: target.Types, Info: target.TypesInfo, SSA: prog, NPkgs: len(pkgs)}
	p.SSAPkg = prog.Package(target.Types)
	for _, f := range target.CompiledGoFiles {
		p.Files = append(p.Files, filepath.Base(f))
	}
	sort.Strings(p.Files)
	p.allFns = ssautil.AllFunctions(prog)
	p.inPkg = map[*ssa.Function]bool{}
	for fn := range p.allFns {
		if p.belongs(fn) {
			p.inPkg[fn] = true
			p.Funcs = append(p.Funcs, fn)
		}
	}
	sort.Slice(p.Funcs, func(i, j int) bool { return p.Funcs[i].String() < p.Funcs[j].String() })
	matchFuncs(p)
	p.CHA = cha.CallGraph(prog)
	p.VTA = vta.CallGraph(p.allFns, p.CHA)
	return p, nil
}

func (p *Prog) belongs(fn *ssa.Function) bool {
	for f := fn; f != nil; f = f.Parent() {
		if f.Package() == p.SSAPkg {
			return true
		}
		if o := f.Origin(); o != nil && o.Package() == p.SSAPkg {
			return true
		}
		if f.Parent() == nil && f.Synthetic != "" && f.Package() == nil {
			// wrappers and bound-method closures of package methods
			if obj := f.Object(); obj != nil && obj.Pkg() == p.Types {
				return true
			}
		}
	}
	return false
}

// InPkg reports whether fn belongs to the analysed package.
func (p *Prog) InPkg(fn *ssa.Function) bool { return p.inPkg[fn] }

// Pos formats a position relative to the repository.
func (p *Prog) Pos(pos token.Pos) string {
	if !pos.IsValid() {
		return "-"
	}
	ps := p.Fset.Position(pos)
	return fmt.Sprintf("%s:%d", filepath.Base(ps.Filename), ps.Line)
}

// FuncNamed returns the package-level function or method with the given
// display name: "forType", "(*Schema).Resolve", "Schema.MarshalJSON".
func (p *Prog) FuncNamed(name string) *ssa.Function {
	for _, fn := range p.Funcs {
		if fn.Parent() == nil && FuncName(fn) == name && fn.Synthetic == "" {
			return fn
		}
	}
	// instantiated generics: take origin
	for _, fn := range p.Funcs {
		if fn.Parent() == nil && fn.Origin() != nil && FuncName(fn.Origin()) == name {
			return fn.Origin()
		}
	}
	return nil
}

// FuncName is a short name without the package path.
func FuncName(fn *ssa.Function) string {
	if fn == nil {
		return "<nil>"
	}
	if fn.Parent() != nil {
		return FuncName(fn.Parent()) + "$" + strings.TrimPrefix(fn.Name(), fn.Parent().Name()+"$")
	}
	if recv := fn.Signature.Recv(); recv != nil {
		t := recv.Type()
		ptr := ""
		if pt, ok := t.(*types.Pointer); ok {
			ptr = "*"
			t = pt.Elem()
		}
		n := t.String()
		if nt, ok := t.(*types.Named); ok {
			n = nt.Obj().Name()
		}
		if ptr != "" {
			return CanonFunc("(*" + n + ")." + fn.Name())
		}
		return CanonFunc(n + "." + fn.Name())
	}
	if fn.Pkg != nil || fn.Origin() != nil {
		return CanonFunc(fn.Name())
	}
	return fn.Name()
}

// Named returns the named type declared in the package.
func (p *Prog) Named(name string) *types.Named {
	obj := p.Types.Scope().Lookup(CurType(name))
	if obj == nil {
		return nil
	}
	n, _ := obj.Type().(*types.Named)
	return n
}

// Struct returns the underlying struct of a named type of the package.
func (p *Prog) Struct(name string) *types.Struct {
	n := p.Named(name)
	if n == nil {
		return nil
	}
	s, _ := n.Underlying().(*types.Struct)
	return s
}

// Field returns the field object name.field of a package struct.
func (p *Prog) Field(typ, field string) *types.Var {
	s := p.Struct(typ)
	if s == nil {
		return nil
	}
	_, field = CurField(typ, field)
	for i := 0; i < s.NumFields(); i++ {
		if s.Field(i).Name() == field {
			return s.Field(i)
		}
	}
	return nil
}

// Callees returns the possible callees of a call instruction in graph g.
func Callees(g *callgraph.Graph, site ssa.CallInstruction) []*ssa.Function {
	fn := site.Parent()
	n := g.Nodes[fn]
	if n == nil {
		return nil
	}
	var out []*ssa.Function
	seen := map[*ssa.Function]bool{}
	for _, e := range n.Out {
		if e.Site == site && !seen[e.Callee.Func] {
			seen[e.Callee.Func] = true
			out = append(out, e.Callee.Func)
		}
	}
	return out
}

// calleeIndex caches callees per site.
type calleeIndex map[ssa.CallInstruction][]*ssa.Function

func buildCalleeIndex(g *callgraph.Graph, fns []*ssa.Function) calleeIndex {
	idx := calleeIndex{}
	for _, fn := range fns {
		n := g.Nodes[fn]
		if n == nil {
			continue
		}
		for _, e := range n.Out {
			if e.Site == nil {
				continue
			}
			dup := false
			for _, c := range idx[e.Site] {
				if c == e.Callee.Func {
					dup = true
				}
			}
			if !dup {
				idx[e.Site] = append(idx[e.Site], e.Callee.Func)
			}
		}
	}
	return idx
}

// Closure is the set of package functions reachable from entry points.
type Closure struct {
	Name    string
	Entries []*ssa.Function
	Set     map[*ssa.Function]bool
	// Reflective lists methods added because a value of their receiver type
	// is handed to fmt or encoding/json.
	Reflective []string
}

func (c *Closure) Has(fn *ssa.Function) bool { return c.Set[fn] }

func (c *Closure) Sorted() []*ssa.Function {
	var out []*ssa.Function
	for f := range c.Set {
		out = append(out, f)
	}
	sort.Slice(out, func(i, j int) bool { return out[i].String() < out[j].String() })
	return out
}

// Minus returns the functions of c that are not in d.
func (c *Closure) Minus(d *Closure) *Closure {
	r := &Closure{Name: c.Name + "\\" + d.Name, Entries: c.Entries, Set: map[*ssa.Function]bool{}}
	for f := range c.Set {
		if !d.Set[f] {
			r.Set[f] = true
		}
	}
	return r
}

// Closure computes the package-local closure of the entries in graph g
// (VTA for the quick tier, CHA for the conservative tier). Calls into the
// standard library are not followed, except that methods of package types that
// fmt and encoding/json call by reflection are added when a value whose static
// type can contain such a type is passed to them.
func (p *Prog) Closure(name string, g *callgraph.Graph, entries ...*ssa.Function) *Closure {
	c := &Closure{Name: name, Set: map[*ssa.Function]bool{}}
	var work []*ssa.Function
	add := func(fn *ssa.Function) {
		if fn != nil && p.inPkg[fn] && !c.Set[fn] {
			c.Set[fn] = true
			work = append(work, fn)
		}
	}
	for _, e := range entries {
		if e != nil {
			c.Entries = append(c.Entries, e)
			add(e)
		}
	}
	refl := map[string]bool{}
	for len(work) > 0 {
		fn := work[len(work)-1]
		work = work[:len(work)-1]
		// anonymous functions created here are considered reachable
		for _, a := range fn.AnonFuncs {
			add(a)
		}
		if n := g.Nodes[fn]; n != nil {
			for _, e := range n.Out {
				add(e.Callee.Func)
			}
		}
		for _, b := range fn.Blocks {
			for _, ins := range b.Instrs {
				call, ok := ins.(ssa.CallInstruction)
				if !ok {
					continue
				}
				for _, m := range p.reflectiveTargets(call) {
					if !c.Set[m] {
						refl[FuncName(m)] = true
					}
					add(m)
				}
			}
		}
	}
	for k := range refl {
		c.Reflective = append(c.Reflective, k)
	}
	sort.Strings(c.Reflective)
	return c
}

// reflectiveTargets returns package methods that a standard-library callee can
// invoke by reflection on the arguments of this call.
func (p *Prog) reflectiveTargets(call ssa.CallInstruction) []*ssa.Function {
	callee := call.Common().StaticCallee()
	if callee == nil || callee.Pkg == nil || p.inPkg[callee] {
		return nil
	}
	var methods []string
	switch callee.Pkg.Pkg.Path() {
	case "fmt":
		methods = []string{"String", "Error"}
	case "encoding/json":
		switch callee.Name() {
		case "Marshal", "MarshalIndent":
			methods = []string{"MarshalJSON", "MarshalText"}
		case "Unmarshal":
			methods = []string{"UnmarshalJSON", "UnmarshalText"}
		default:
			return nil
		}
	default:
		return nil
	}
	var out []*ssa.Function
	seenT := map[types.Type]bool{}
	for _, a := range call.Common().Args {
		a = peelInterface(a)
		for _, nt := range p.namedWithin(a.Type(), seenT, callee.Pkg.Pkg.Path() == "encoding/json" && strings.HasPrefix(callee.Name(), "Unmarshal")) {
			for _, mname := range methods {
				for _, t := range []types.Type{nt, types.NewPointer(nt)} {
					ms := p.SSA.MethodSets.MethodSet(t)
					if sel := ms.Lookup(p.Types, mname); sel != nil {
						if fn := p.SSA.MethodValue(sel); fn != nil {
							out = append(out, fn)
						}
					}
				}
			}
		}
	}
	return out
}

func peelInterface(v ssa.Value) ssa.Value {
	for {
		switch x := v.(type) {
		case *ssa.MakeInterface:
			v = x.X
		case *ssa.ChangeInterface:
			v = x.X
		default:
			return v
		}
	}
}

// namedWithin lists package named types structurally contained in t. An
// interface-typed component conservatively yields every package type with
// methods, unless decodeTarget is set (a decoder never creates package types
// for interface-typed targets).
func (p *Prog) namedWithin(t types.Type, seen map[types.Type]bool, decodeTarget bool) []*types.Named {
	var out []*types.Named
	var walk func(t types.Type)
	walk = func(t types.Type) {
		if t == nil || seen[t] {
			return
		}
		seen[t] = true
		switch x := t.(type) {
		case *types.Named:
			if x.Obj().Pkg() == p.Types {
				out = append(out, x)
			}
			walk(x.Underlying())
		case *types.Alias:
			walk(types.Unalias(x))
		case *types.Pointer:
			walk(x.Elem())
		case *types.Slice:
			walk(x.Elem())
		case *types.Array:
			walk(x.Elem())
		case *types.Map:
			walk(x.Key())
			walk(x.Elem())
		case *types.Struct:
			for i := 0; i < x.NumFields(); i++ {
				walk(x.Field(i).Type())
			}
		case *types.Interface:
			if !decodeTarget {
				sc := p.Types.Scope()
				for _, n := range sc.Names() {
					if tn, ok := sc.Lookup(n).(*types.TypeName); ok {
						if nt, ok := tn.Type().(*types.Named); ok && nt.NumMethods() > 0 && nt.TypeParams().Len() == 0 {
							if !seen[nt] {
								seen[nt] = true
								out = append(out, nt)
							}
						}
					}
				}
			}
		case *types.Tuple:
			for i := 0; i < x.Len(); i++ {
				walk(x.At(i).Type())
			}
		}
	}
	walk(t)
	return out
}

// MethodOf returns the method fn of named type (value or pointer receiver).
func (p *Prog) MethodOf(typ, method string) *ssa.Function {
	nt := p.Named(typ)
	if nt == nil {
		return nil
	}
	// the method may have been renamed: translate the canonical name
	for _, form := range []string{"(*" + typ + ")." + method, typ + "." + method} {
		if cur := CurFunc(form); cur != form {
			method = cur[strings.LastIndex(cur, ".")+1:]
		}
	}
	for _, t := range []types.Type{nt, types.NewPointer(nt)} {
		if sel := p.SSA.MethodSets.MethodSet(t).Lookup(p.Types, method); sel != nil {
			fn := p.SSA.MethodValue(sel)
			if fn != nil && fn.Synthetic == "" {
				return fn
			}
			// wrapper for promoted/pointer: find the declared one
			if fn != nil {
				if obj, ok := sel.Obj().(*types.Func); ok {
					return p.SSA.FuncValue(obj)
				}
			}
		}
	}
	return nil
}

// Instantiations returns the instantiations of the generic function named name.
func (p *Prog) Instantiations(name string) []*ssa.Function {
	var out []*ssa.Function
	for _, fn := range p.Funcs {
		if fn.Parent() == nil && fn.Origin() != nil && fn.Origin().Name() == name {
			out = append(out, fn)
		}
	}
	return out
}
