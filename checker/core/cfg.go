package core

import (
	"go/token"

	"golang.org/x/tools/go/ssa"
)

// FuncInfo holds per-function graph facts: post-dominators and control
// dependence on the SSA block graph, with a virtual exit that joins Return and
// Panic blocks.
type FuncInfo struct {
	Fn    *ssa.Function
	ipdom []int // immediate post-dominator index; -1 = virtual exit; -2 = unknown (cannot reach exit)
	// CD[b] lists the branch edges block b is directly control dependent on.
	CD [][]Branch
}

// Branch is one outgoing edge of a block that ends in If (or a multi-way
// terminator): the If block and which successor was taken.
type Branch struct {
	Block *ssa.BasicBlock
	Succ  int // index into Block.Succs; for If: 0 = true, 1 = false
}

// Cond returns the condition of an If branch and whether the edge is the true edge.
func (b Branch) Cond() (ssa.Value, bool) {
	if ifi, ok := b.Block.Instrs[len(b.Block.Instrs)-1].(*ssa.If); ok {
		return ifi.Cond, b.Succ == 0
	}
	return nil, false
}

var funcInfoCache = map[*ssa.Function]*FuncInfo{}

// Info computes (and caches) the graph facts of fn.
func Info(fn *ssa.Function) *FuncInfo {
	if fi, ok := funcInfoCache[fn]; ok {
		return fi
	}
	fi := &FuncInfo{Fn: fn}
	n := len(fn.Blocks)
	// post-dominators by iterative dataflow over sets (functions are small).
	const exit = -1
	full := make([]bool, n)
	for i := range full {
		full[i] = true
	}
	pd := make([][]bool, n)
	isExit := func(b *ssa.BasicBlock) bool { return len(b.Succs) == 0 }
	for i := range pd {
		pd[i] = append([]bool(nil), full...)
	}
	changed := true
	for changed {
		changed = false
		for i := n - 1; i >= 0; i-- {
			b := fn.Blocks[i]
			var nw []bool
			if isExit(b) {
				nw = make([]bool, n)
			} else {
				nw = append([]bool(nil), full...)
				for _, s := range b.Succs {
					for k := range nw {
						nw[k] = nw[k] && pd[s.Index][k]
					}
				}
			}
			nw[i] = true
			for k := range nw {
				if nw[k] != pd[i][k] {
					changed = true
					pd[i] = nw
					break
				}
			}
		}
	}
	// strict pdom counts -> ipdom: the strict post-dominator with the largest pdom set size minus one.
	size := func(i int) int {
		c := 0
		for _, v := range pd[i] {
			if v {
				c++
			}
		}
		return c
	}
	fi.ipdom = make([]int, n)
	for i := 0; i < n; i++ {
		best, bestSize := exit, -1
		for k := 0; k < n; k++ {
			if k != i && pd[i][k] {
				// k strictly post-dominates i; choose the closest: the one whose own pdom set is largest
				if s := size(k); s > bestSize {
					best, bestSize = k, s
				}
			}
		}
		fi.ipdom[i] = best
	}
	// control dependence (Ferrante et al.): for edge A->S where S does not
	// post-dominate A... walk from S up the post-dominator tree to ipdom(A).
	fi.CD = make([][]Branch, n)
	for _, a := range fn.Blocks {
		if len(a.Succs) < 2 {
			continue
		}
		for si, s := range a.Succs {
			stop := fi.ipdom[a.Index]
			seen := map[int]bool{}
			for cur := s.Index; cur != stop && cur != exit && !seen[cur]; cur = fi.ipdom[cur] {
				seen[cur] = true
				fi.CD[cur] = append(fi.CD[cur], Branch{a, si})
			}
		}
	}
	funcInfoCache[fn] = fi
	return fi
}

// PostDominates reports whether block a post-dominates block b.
func (fi *FuncInfo) PostDominates(a, b *ssa.BasicBlock) bool {
	for cur := b.Index; cur >= 0; cur = fi.ipdom[cur] {
		if cur == a.Index {
			return true
		}
		if fi.ipdom[cur] == cur {
			break
		}
	}
	return false
}

// Guards returns the transitive set of branch edges that block b is control
// dependent on (the conjunction of conditions under which b executes, over-
// approximated as a set: for a block reachable along several chains the union).
func (fi *FuncInfo) Guards(b *ssa.BasicBlock) []Branch {
	var out []Branch
	seenB := map[int]bool{}
	seenE := map[Branch]bool{}
	var walk func(i int)
	walk = func(i int) {
		if seenB[i] {
			return
		}
		seenB[i] = true
		for _, br := range fi.CD[i] {
			if !seenE[br] {
				seenE[br] = true
				out = append(out, br)
			}
			walk(br.Block.Index)
		}
	}
	walk(b.Index)
	return out
}

// Reachable reports whether block to is reachable from block from (from
// itself counts only through a cycle unless inclusive).
func Reachable(from, to *ssa.BasicBlock, avoid map[*ssa.BasicBlock]bool) bool {
	seen := map[*ssa.BasicBlock]bool{}
	var stack []*ssa.BasicBlock
	stack = append(stack, from.Succs...)
	for len(stack) > 0 {
		b := stack[len(stack)-1]
		stack = stack[:len(stack)-1]
		if seen[b] || avoid[b] {
			continue
		}
		seen[b] = true
		if b == to {
			return true
		}
		stack = append(stack, b.Succs...)
	}
	return false
}

// ReachableFromInstr reports whether instruction b can execute after
// instruction a in the same function.
func ReachableFromInstr(a, b ssa.Instruction) bool {
	if a.Block() == b.Block() {
		ia, ib := indexIn(a), indexIn(b)
		if ia < ib {
			return true
		}
	}
	return Reachable(a.Block(), b.Block(), nil)
}

func indexIn(i ssa.Instruction) int {
	for k, x := range i.Block().Instrs {
		if x == i {
			return k
		}
	}
	return -1
}

// Dominates reports whether instruction a dominates instruction b.
func Dominates(a, b ssa.Instruction) bool {
	if a.Block() == b.Block() {
		return indexIn(a) < indexIn(b)
	}
	return a.Block().Dominates(b.Block())
}

// EachInstr calls f for every instruction of fn.
func EachInstr(fn *ssa.Function, f func(ssa.Instruction)) {
	for _, b := range fn.Blocks {
		for _, i := range b.Instrs {
			f(i)
		}
	}
}

// WithAnon returns fn and all functions nested in it.
func WithAnon(fn *ssa.Function) []*ssa.Function {
	out := []*ssa.Function{fn}
	for _, a := range fn.AnonFuncs {
		out = append(out, WithAnon(a)...)
	}
	return out
}

// InstrPos returns the best available position of an instruction.
func InstrPos(i ssa.Instruction) token.Pos {
	if p := i.Pos(); p.IsValid() {
		return p
	}
	if v, ok := i.(ssa.Value); ok {
		_ = v
	}
	// fall back to the nearest positioned instruction in the block
	b := i.Block()
	if b == nil {
		return token.NoPos
	}
	idx := indexIn(i)
	for d := 1; d < len(b.Instrs); d++ {
		if idx-d >= 0 && b.Instrs[idx-d].Pos().IsValid() {
			return b.Instrs[idx-d].Pos()
		}
		if idx+d < len(b.Instrs) && b.Instrs[idx+d].Pos().IsValid() {
			return b.Instrs[idx+d].Pos()
		}
	}
	return i.Parent().Pos()
}

// DomGuards returns the branch outcomes that necessarily hold when block b
// executes: every If edge whose target has the If block as its only
// predecessor and dominates b.
func (fi *FuncInfo) DomGuards(b *ssa.BasicBlock) []Branch {
	var out []Branch
	for _, a := range fi.Fn.Blocks {
		if len(a.Succs) != 2 || a.Succs[0] == a.Succs[1] {
			continue
		}
		if _, ok := a.Instrs[len(a.Instrs)-1].(*ssa.If); !ok {
			continue
		}
		for si, s := range a.Succs {
			if len(s.Preds) == 1 && s.Dominates(b) {
				out = append(out, Branch{a, si})
			}
		}
	}
	return out
}
