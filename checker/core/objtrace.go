package core

import (
	"fmt"
	"go/types"
	"sort"
	"strings"

	"golang.org/x/tools/go/callgraph"
	"golang.org/x/tools/go/ssa"
)

// Demand-driven, allocation-site based "which memory does this value
// designate" analysis (DESIGN.md section 3.2/3.3). It is a backward tracer with
// a global fixpoint; it is flow-insensitive and context-insensitive, restricted
// to the functions of one closure.

type RootKind int

const (
	RFresh  RootKind = iota // Alloc, MakeMap, MakeSlice, MakeChan, or the region created by a fresh-returning call
	RTemp                   // temporary holding a value wrapped by reflect.ValueOf / reflect.New
	RParam                  // parameter of an entry point (or of a function with unknown callers)
	RGlobal                 // package-level variable
	RExt                    // result of a call whose callee is unknown (user callback)
)

func (k RootKind) String() string {
	return [...]string{"fresh", "temp", "param", "global", "ext"}[k]
}

// Root is an abstract memory origin.
type Root struct {
	Kind RootKind
	V    ssa.Value     // allocation / parameter / global / call
	Fn   *ssa.Function // function containing V (nil for globals)
}

func (r *Root) String() string {
	fn := ""
	if r.Fn != nil {
		fn = "@" + FuncName(r.Fn)
	}
	switch r.Kind {
	case RParam:
		return fmt.Sprintf("param(%s %s)%s", r.V.Name(), shortType(r.V.Type()), fn)
	case RGlobal:
		return "global(" + r.V.Name() + ")"
	case RExt:
		return "callresult(" + shortCall(r.V) + ")" + fn
	case RTemp:
		return "temp(" + shortCall(r.V) + ")" + fn
	}
	n := r.V.Name()
	if a, ok := r.V.(*ssa.Alloc); ok && a.Comment != "" {
		n = a.Comment
	}
	if _, ok := r.V.(*ssa.Call); ok {
		n = shortCall(r.V)
	}
	return fmt.Sprintf("fresh(%s)%s", n, fn)
}

func shortType(t types.Type) string {
	return types.TypeString(t, func(p *types.Package) string { return "" })
}

func shortCall(v ssa.Value) string {
	if c, ok := v.(*ssa.Call); ok {
		if f := c.Call.StaticCallee(); f != nil {
			return f.Name()
		}
		if c.Call.IsInvoke() {
			return c.Call.Method.Name()
		}
		return "dyn:" + c.Call.Value.Name()
	}
	return v.Name()
}

// Loc is a memory location: a root and a path of steps.
// Steps: "f:Owner.Field" (struct field), "f:?" (field chosen by reflection),
// "[]" (element of slice, array or map), "*" (the region designated by the
// pointer-like value stored here), "..." (path truncated).
type Loc struct {
	Root *Root
	Path string
}

const maxSteps = 4

func (l Loc) steps() []string {
	if l.Path == "" {
		return nil
	}
	return strings.Split(l.Path, "/")
}

func (l Loc) plus(step string) Loc {
	st := l.steps()
	if len(st) > 0 && st[len(st)-1] == "..." {
		return l
	}
	if step == "*" && len(st) > 0 && st[len(st)-1] == "*" {
		return l
	}
	if len(st) >= maxSteps {
		return Loc{l.Root, l.Path + "/..."}
	}
	if l.Path == "" {
		return Loc{l.Root, step}
	}
	return Loc{l.Root, l.Path + "/" + step}
}

func (l Loc) plusAll(steps []string) Loc {
	for _, s := range steps {
		l = l.plus(s)
	}
	return l
}

func (l Loc) String() string {
	if l.Path == "" {
		return l.Root.String()
	}
	return l.Root.String() + "." + l.Path
}

// FieldsOnPath returns the "Owner.Field" names of the field steps.
func (l Loc) FieldsOnPath() []string {
	var out []string
	for _, s := range l.steps() {
		if strings.HasPrefix(s, "f:") {
			out = append(out, strings.TrimPrefix(s, "f:"))
		}
	}
	return out
}

type LocSet map[Loc]struct{}

func (s LocSet) add(l Loc) bool {
	if _, ok := s[l]; ok {
		return false
	}
	s[l] = struct{}{}
	return true
}

func (s LocSet) addAll(t LocSet) {
	for l := range t {
		s[l] = struct{}{}
	}
}

func (s LocSet) Sorted() []Loc {
	var out []Loc
	for l := range s {
		out = append(out, l)
	}
	sort.Slice(out, func(i, j int) bool { return out[i].String() < out[j].String() })
	return out
}

func fieldStep(v *types.Var, owner types.Type) string {
	o := "?"
	for {
		if p, ok := owner.(*types.Pointer); ok {
			owner = p.Elem()
			continue
		}
		break
	}
	if n, ok := types.Unalias(owner).(*types.Named); ok {
		o = n.Obj().Name()
		if co, cf := CanonField(o, v.Name()); true {
			return "f:" + co + "." + cf
		}
	} else if _, ok := owner.Underlying().(*types.Struct); ok {
		o = "struct"
	}
	return "f:" + o + "." + v.Name()
}

func stepMatch(a, b string) bool {
	if a == b {
		return true
	}
	if a == "f:?" && strings.HasPrefix(b, "f:") {
		return true
	}
	if b == "f:?" && strings.HasPrefix(a, "f:") {
		return true
	}
	return false
}

// storeRec is anything that puts a value into memory.
type storeRec struct {
	instr   ssa.Instruction
	targets func() LocSet // locations written
	valObj  func() LocSet // objects designated by the stored pointer-like value
	srcSlot func() LocSet // locations a by-value copy is taken from (struct copy, reflect Set)
}

// Tracer answers location queries for the functions of one closure.
type Tracer struct {
	P         *Prog
	X         *Closure
	G         *callgraph.Graph
	callees   calleeIndex
	callers   map[*ssa.Function][]ssa.CallInstruction
	roots     map[ssa.Value]map[RootKind]*Root
	memo      map[ssa.Value]LocSet
	memoL     map[Loc]LocSet
	round     int
	doneV     map[ssa.Value]int
	doneL     map[Loc]int
	grew      bool
	stores    []*storeRec
	makeClo   map[*ssa.Function][]*ssa.MakeClosure
	retsOf    map[*ssa.Function][]*ssa.Return
	Undecided []string
}

// NewTracer prepares a tracer for closure x on graph g.
func NewTracer(p *Prog, x *Closure, g *callgraph.Graph) *Tracer {
	t := &Tracer{P: p, X: x, G: g, roots: map[ssa.Value]map[RootKind]*Root{}, memo: map[ssa.Value]LocSet{}, memoL: map[Loc]LocSet{},
		doneV: map[ssa.Value]int{}, doneL: map[Loc]int{}, callers: map[*ssa.Function][]ssa.CallInstruction{},
		makeClo: map[*ssa.Function][]*ssa.MakeClosure{}, retsOf: map[*ssa.Function][]*ssa.Return{}}
	fns := x.Sorted()
	t.callees = buildCalleeIndex(g, fns)
	for site, cs := range t.callees {
		for _, c := range cs {
			if x.Has(c) {
				t.callers[c] = append(t.callers[c], site)
			}
		}
	}
	for _, fn := range fns {
		EachInstr(fn, func(i ssa.Instruction) {
			switch v := i.(type) {
			case *ssa.MakeClosure:
				if f, ok := v.Fn.(*ssa.Function); ok {
					t.makeClo[f] = append(t.makeClo[f], v)
				}
			case *ssa.Return:
				t.retsOf[fn] = append(t.retsOf[fn], v)
			}
			t.collectStore(i)
		})
	}
	return t
}

func (t *Tracer) root(k RootKind, v ssa.Value, fn *ssa.Function) *Root {
	m := t.roots[v]
	if m == nil {
		m = map[RootKind]*Root{}
		t.roots[v] = m
	}
	if r, ok := m[k]; ok {
		return r
	}
	r := &Root{Kind: k, V: v, Fn: fn}
	m[k] = r
	return r
}

// Obj returns the locations designated by v (fixpoint).
func (t *Tracer) Obj(v ssa.Value) LocSet {
	for {
		t.round++
		t.grew = false
		r := t.obj(v)
		if !t.grew {
			return r
		}
	}
}

// Load returns the objects designated by the pointer-like content of the locations.
func (t *Tracer) Load(ls LocSet) LocSet {
	for {
		t.round++
		t.grew = false
		out := LocSet{}
		for l := range ls {
			out.addAll(t.loadLoc(l))
		}
		if !t.grew {
			return out
		}
	}
}

func isReflectValue(tp types.Type) bool {
	if p, ok := tp.(*types.Pointer); ok {
		tp = p.Elem()
	}
	n, ok := types.Unalias(tp).(*types.Named)
	if !ok || n.Obj().Pkg() == nil || n.Obj().Pkg().Path() != "reflect" {
		return false
	}
	return n.Obj().Name() == "Value" || n.Obj().Name() == "MapIter"
}

func pointerLike(tp types.Type) bool {
	if isReflectValue(tp) {
		return true
	}
	switch tp.Underlying().(type) {
	case *types.Pointer, *types.Map, *types.Slice, *types.Chan, *types.Interface, *types.Signature:
		return true
	}
	return false
}

func aggregate(tp types.Type) bool {
	if isReflectValue(tp) {
		return false
	}
	switch tp.Underlying().(type) {
	case *types.Struct, *types.Array:
		return true
	}
	return false
}

func (t *Tracer) obj(v ssa.Value) LocSet {
	if v == nil {
		return LocSet{}
	}
	if t.doneV[v] == t.round {
		return t.memo[v]
	}
	t.doneV[v] = t.round
	if t.memo[v] == nil {
		t.memo[v] = LocSet{}
	}
	res := t.compute(v)
	cur := t.memo[v]
	for l := range res {
		if cur.add(l) {
			t.grew = true
		}
	}
	return cur
}

func (t *Tracer) union(vs ...ssa.Value) LocSet {
	out := LocSet{}
	for _, v := range vs {
		out.addAll(t.obj(v))
	}
	return out
}

func (t *Tracer) compute(v ssa.Value) LocSet {
	out := LocSet{}
	switch x := v.(type) {
	case *ssa.Alloc:
		out.add(Loc{t.root(RFresh, x, x.Parent()), ""})
	case *ssa.MakeMap:
		out.add(Loc{t.root(RFresh, x, x.Parent()), ""})
	case *ssa.MakeSlice:
		out.add(Loc{t.root(RFresh, x, x.Parent()), ""})
	case *ssa.MakeChan:
		out.add(Loc{t.root(RFresh, x, x.Parent()), ""})
	case *ssa.Global:
		out.add(Loc{t.root(RGlobal, x, nil), ""})
	case *ssa.Const, *ssa.Function, *ssa.Builtin:
	case *ssa.MakeClosure:
		out.add(Loc{t.root(RFresh, x, x.Parent()), ""})
	case *ssa.Parameter:
		fn := x.Parent()
		idx := -1
		for i, p := range fn.Params {
			if p == x {
				idx = i
			}
		}
		sites := t.callers[fn]
		isEntry := len(sites) == 0
		for _, e := range t.X.Entries {
			if e == fn {
				isEntry = true
			}
		}
		if isEntry {
			out.add(Loc{t.root(RParam, x, fn), ""})
		}
		for _, site := range sites {
			args := site.Common().Args
			if site.Common().IsInvoke() {
				if idx == 0 {
					out.addAll(t.obj(site.Common().Value))
					continue
				}
				if idx-1 < len(args) {
					out.addAll(t.obj(args[idx-1]))
				}
				continue
			}
			if len(args) == len(fn.Params) {
				out.addAll(t.obj(args[idx]))
			} else {
				// bound method closure or wrapper: be conservative
				out.add(Loc{t.root(RParam, x, fn), ""})
			}
		}
	case *ssa.FreeVar:
		fn := x.Parent()
		idx := -1
		for i, fv := range fn.FreeVars {
			if fv == x {
				idx = i
			}
		}
		mcs := t.makeClo[fn]
		if len(mcs) == 0 {
			// closure created outside the closure set: look in the parent anyway
			if par := fn.Parent(); par != nil {
				EachInstr(par, func(i ssa.Instruction) {
					if mc, ok := i.(*ssa.MakeClosure); ok && mc.Fn == fn {
						mcs = append(mcs, mc)
					}
				})
			}
		}
		for _, mc := range mcs {
			out.addAll(t.obj(mc.Bindings[idx]))
		}
	case *ssa.Phi:
		for _, e := range x.Edges {
			out.addAll(t.obj(e))
		}
	case *ssa.ChangeType:
		out.addAll(t.obj(x.X))
	case *ssa.ChangeInterface:
		out.addAll(t.obj(x.X))
	case *ssa.MakeInterface:
		out.addAll(t.obj(x.X))
	case *ssa.Convert:
		if pointerLike(x.X.Type()) && pointerLike(x.Type()) {
			if _, isStr := x.X.Type().Underlying().(*types.Basic); !isStr {
				out.addAll(t.obj(x.X))
			}
		}
		if _, ok := x.Type().Underlying().(*types.Slice); ok && len(out) == 0 {
			out.add(Loc{t.root(RFresh, x, x.Parent()), ""}) // []byte(string)
		}
	case *ssa.TypeAssert:
		out.addAll(t.obj(x.X))
	case *ssa.Slice:
		out.addAll(t.obj(x.X))
	case *ssa.SliceToArrayPointer:
		out.addAll(t.obj(x.X))
	case *ssa.FieldAddr:
		st := fieldStep(structField(x.X.Type(), x.Field), x.X.Type())
		for l := range t.obj(x.X) {
			out.add(l.plus(st))
		}
	case *ssa.IndexAddr:
		for l := range t.obj(x.X) {
			out.add(l.plus("[]"))
		}
	case *ssa.UnOp:
		if x.Op.String() != "*" {
			break
		}
		out.addAll(t.readAt(t.obj(x.X), x.Type()))
	case *ssa.Field:
		st := fieldStep(structField(x.X.Type(), x.Field), x.X.Type())
		srcs := LocSet{}
		for l := range t.obj(x.X) {
			srcs.add(l.plus(st))
		}
		out.addAll(t.readAt(srcs, x.Type()))
	case *ssa.Index:
		srcs := LocSet{}
		for l := range t.obj(x.X) {
			srcs.add(l.plus("[]"))
		}
		out.addAll(t.readAt(srcs, x.Type()))
	case *ssa.Lookup:
		if _, ok := x.X.Type().Underlying().(*types.Map); !ok {
			break
		}
		srcs := LocSet{}
		for l := range t.obj(x.X) {
			srcs.add(l.plus("[]"))
		}
		tp := x.Type()
		if x.CommaOk {
			tp = tp.(*types.Tuple).At(0).Type()
		}
		out.addAll(t.readAt(srcs, tp))
	case *ssa.Range:
		out.addAll(t.obj(x.X))
	case *ssa.Next:
		// handled at Extract
	case *ssa.Extract:
		switch tup := x.Tuple.(type) {
		case *ssa.Next:
			if rng, ok := tup.Iter.(*ssa.Range); ok && x.Index >= 1 {
				if _, isMap := rng.X.Type().Underlying().(*types.Map); isMap && x.Index == 2 {
					srcs := LocSet{}
					for l := range t.obj(rng.X) {
						srcs.add(l.plus("[]"))
					}
					out.addAll(t.readAt(srcs, x.Type()))
				}
			}
		case *ssa.Lookup:
			if x.Index == 0 {
				out.addAll(t.obj(tup))
			}
		case *ssa.TypeAssert:
			if x.Index == 0 {
				out.addAll(t.obj(tup.X))
			}
		case *ssa.Call:
			out.addAll(t.callResult(tup, x.Index))
		case *ssa.UnOp: // channel receive with ok
		}
	case *ssa.Call:
		out.addAll(t.callResult(x, 0))
	case *ssa.BinOp:
	default:
		if pointerLike(v.Type()) || aggregate(v.Type()) {
			t.Undecided = append(t.Undecided, fmt.Sprintf("objtrace: unmodelled value %T %s in %s", v, v.Name(), FuncName(parentOf(v))))
		}
	}
	return out
}

func parentOf(v ssa.Value) *ssa.Function {
	if i, ok := v.(ssa.Instruction); ok {
		return i.Parent()
	}
	return v.Parent()
}

func structField(tp types.Type, idx int) *types.Var {
	if p, ok := tp.Underlying().(*types.Pointer); ok {
		tp = p.Elem()
	}
	return tp.Underlying().(*types.Struct).Field(idx)
}

// readAt models reading a value of type tp stored at the source locations:
// a pointer-like value designates the loaded objects; an aggregate value is
// represented by the locations it is copied from.
func (t *Tracer) readAt(srcs LocSet, tp types.Type) LocSet {
	out := LocSet{}
	switch {
	case isReflectValue(tp):
		// a reflect.Value stored in memory: its handle is what was stored
		for l := range srcs {
			out.addAll(t.loadLoc(l))
		}
	case aggregate(tp):
		out.addAll(srcs)
	case pointerLike(tp):
		for l := range srcs {
			out.addAll(t.loadLoc(l))
		}
	}
	return out
}

// loadLoc: the objects designated by the pointer-like value stored at l.
func (t *Tracer) loadLoc(l Loc) LocSet {
	if t.doneL[l] == t.round {
		return t.memoL[l]
	}
	t.doneL[l] = t.round
	if t.memoL[l] == nil {
		t.memoL[l] = LocSet{}
	}
	res := LocSet{}
	steps := l.steps()
	if len(steps) > 0 && steps[len(steps)-1] == "..." {
		res.add(l)
	} else if l.Root.Kind != RFresh && l.Root.Kind != RTemp {
		res.add(l.plus("*"))
	} else {
		for _, s := range t.stores {
			for tl := range s.targets() {
				if tl.Root != l.Root {
					continue
				}
				ts := tl.steps()
				if len(ts) > len(steps) {
					continue
				}
				ok := true
				for i := range ts {
					if !stepMatch(ts[i], steps[i]) {
						ok = false
						break
					}
				}
				if !ok {
					continue
				}
				rest := steps[len(ts):]
				if len(rest) == 0 && s.valObj != nil {
					res.addAll(s.valObj())
				}
				if s.srcSlot != nil {
					for src := range s.srcSlot() {
						res.addAll(t.loadLoc(src.plusAll(rest)))
					}
				}
			}
		}
	}
	cur := t.memoL[l]
	for x := range res {
		if cur.add(x) {
			t.grew = true
		}
	}
	return cur
}

func (t *Tracer) collectStore(i ssa.Instruction) {
	switch x := i.(type) {
	case *ssa.Store:
		rec := &storeRec{instr: x, targets: func() LocSet { return t.obj(x.Addr) }}
		vt := x.Val.Type()
		switch {
		case isReflectValue(vt):
			rec.valObj = func() LocSet { return t.obj(x.Val) }
		case aggregate(vt):
			rec.srcSlot = func() LocSet { return t.obj(x.Val) }
		case pointerLike(vt):
			rec.valObj = func() LocSet { return t.obj(x.Val) }
		default:
			return
		}
		t.stores = append(t.stores, rec)
	case *ssa.MapUpdate:
		rec := &storeRec{instr: x, targets: func() LocSet {
			o := LocSet{}
			for l := range t.obj(x.Map) {
				o.add(l.plus("[]"))
			}
			return o
		}}
		vt := x.Value.Type()
		switch {
		case aggregate(vt):
			rec.srcSlot = func() LocSet { return t.obj(x.Value) }
		case pointerLike(vt):
			rec.valObj = func() LocSet { return t.obj(x.Value) }
		default:
			return
		}
		t.stores = append(t.stores, rec)
	case *ssa.Call:
		t.collectCallStore(x)
	}
}

// stdlib functions whose result is a shallow copy of argument 0.
var shallowCopy = map[string]bool{"maps.Clone": true, "slices.Clone": true, "bytes.Clone": true}

func calleeKey(c *ssa.CallCommon) string {
	if f := c.StaticCallee(); f != nil {
		o := f
		if f.Origin() != nil {
			o = f.Origin()
		}
		if o.Pkg != nil {
			if recv := o.Signature.Recv(); recv != nil {
				return o.Pkg.Pkg.Path() + "." + recvName(recv.Type()) + "." + o.Name()
			}
			return o.Pkg.Pkg.Path() + "." + o.Name()
		}
		if obj := o.Object(); obj != nil && obj.Pkg() != nil {
			if recv := o.Signature.Recv(); recv != nil {
				return obj.Pkg().Path() + "." + recvName(recv.Type()) + "." + o.Name()
			}
			return obj.Pkg().Path() + "." + o.Name()
		}
		return o.Name()
	}
	if b, ok := c.Value.(*ssa.Builtin); ok {
		return "builtin." + b.Name()
	}
	if c.IsInvoke() {
		return "invoke." + c.Method.Name()
	}
	return "dynamic"
}

func recvName(t types.Type) string {
	if p, ok := t.(*types.Pointer); ok {
		t = p.Elem()
	}
	if n, ok := types.Unalias(t).(*types.Named); ok {
		return n.Obj().Name()
	}
	return t.String()
}

func (t *Tracer) collectCallStore(c *ssa.Call) {
	key := calleeKey(&c.Call)
	args := c.Call.Args
	switch {
	case key == "builtin.append":
		// the result's elements include the appended elements
		t.stores = append(t.stores, &storeRec{instr: c,
			targets: func() LocSet {
				o := LocSet{}
				for l := range t.obj(c) {
					o.add(l.plus("[]"))
				}
				return o
			},
			srcSlot: func() LocSet {
				o := LocSet{}
				if len(args) > 1 {
					for l := range t.obj(args[1]) {
						o.add(l.plus("[]"))
					}
				}
				return o
			}})
	case key == "builtin.copy":
		t.stores = append(t.stores, &storeRec{instr: c,
			targets: func() LocSet { return plusAll(t.obj(args[0]), "[]") },
			srcSlot: func() LocSet { return plusAll(t.obj(args[1]), "[]") }})
	case shallowCopy[key]:
		t.stores = append(t.stores, &storeRec{instr: c,
			targets: func() LocSet { return plusAll(t.obj(c), "[]") },
			srcSlot: func() LocSet { return plusAll(t.obj(args[0]), "[]") }})
	case key == "maps.Copy" || key == "maps.Insert":
		t.stores = append(t.stores, &storeRec{instr: c,
			targets: func() LocSet { return plusAll(t.obj(args[0]), "[]") },
			srcSlot: func() LocSet { return plusAll(t.obj(args[1]), "[]") }})
	case key == "reflect.ValueOf":
		x := peelInterface(args[0])
		rec := &storeRec{instr: c, targets: func() LocSet {
			return LocSet{Loc{t.root(RTemp, c, c.Parent()), ""}: {}}
		}}
		if aggregate(x.Type()) {
			rec.srcSlot = func() LocSet { return t.obj(x) }
		} else {
			rec.valObj = func() LocSet { return t.obj(x) }
		}
		t.stores = append(t.stores, rec)
	case key == "reflect.New" || key == "reflect.MakeMap" || key == "reflect.MakeMapWithSize" || key == "reflect.MakeSlice" || key == "reflect.Zero":
		t.stores = append(t.stores, &storeRec{instr: c,
			targets: func() LocSet { return LocSet{Loc{t.root(RTemp, c, c.Parent()), ""}: {}} },
			valObj:  func() LocSet { return LocSet{Loc{t.root(RFresh, c, c.Parent()), ""}: {}} }})
	case key == "reflect.Value.Set":
		t.stores = append(t.stores, &storeRec{instr: c,
			targets: func() LocSet { return t.obj(args[0]) },
			srcSlot: func() LocSet { return t.obj(args[1]) }})
	case key == "reflect.Value.SetMapIndex":
		t.stores = append(t.stores, &storeRec{instr: c,
			targets: func() LocSet { return t.handleElems(args[0]) },
			srcSlot: func() LocSet { return t.obj(args[2]) }})
	}
}

func plusAll(s LocSet, step string) LocSet {
	o := LocSet{}
	for l := range s {
		o.add(l.plus(step))
	}
	return o
}

// handleElems: element locations of the container a reflect handle refers to.
func (t *Tracer) handleElems(h ssa.Value) LocSet {
	o := LocSet{}
	for l := range t.obj(h) {
		o.add(l.plus("[]"))
		for c := range t.loadLoc(l) {
			o.add(c.plus("[]"))
		}
	}
	return o
}

// stdlib functions returning a freshly allocated value unrelated to their arguments' memory.
var returnsFresh = map[string]bool{
	"maps.Clone": true, "slices.Clone": true, "bytes.Clone": true, "slices.Sorted": true, "slices.Collect": true,
	"slices.SortedFunc": true, "strings.Split": true, "strings.Fields": true, "strings.SplitN": true,
	"reflect.Value.MapKeys": true, "reflect.VisibleFields": true, "net/url.Parse": true, "regexp.Compile": true,
	"regexp.MustCompile": true, "encoding/json.Marshal": true, "fmt.Errorf": true, "errors.New": true, "fmt.Sprintf": true,
	"net/url.URL.ResolveReference": true, "math/big.Rat.Num": false,
}

func (t *Tracer) callResult(c *ssa.Call, idx int) LocSet {
	out := LocSet{}
	key := calleeKey(&c.Call)
	args := c.Call.Args
	var rt types.Type = c.Type()
	if tup, ok := rt.(*types.Tuple); ok {
		if idx >= tup.Len() {
			return out
		}
		rt = tup.At(idx).Type()
	}
	if !pointerLike(rt) && !aggregate(rt) {
		return out
	}
	// package callees
	handled := false
	for _, callee := range t.callees[c] {
		if !t.X.Has(callee) && !t.P.InPkg(callee) {
			continue
		}
		handled = true
		rets := t.retsOf[callee]
		if rets == nil && t.P.InPkg(callee) {
			EachInstr(callee, func(i ssa.Instruction) {
				if r, ok := i.(*ssa.Return); ok {
					rets = append(rets, r)
				}
			})
		}
		for _, r := range rets {
			if idx < len(r.Results) {
				out.addAll(t.obj(r.Results[idx]))
			}
		}
	}
	if c.Call.StaticCallee() == nil && !c.Call.IsInvoke() {
		if _, isBuiltin := c.Call.Value.(*ssa.Builtin); !isBuiltin {
			// a call through a function value: unless the value can only be a
			// closure created in the analysed closure set, a caller-supplied
			// function may run, whose result is foreign memory.
			closed := true
			fv := t.obj(c.Call.Value)
			for l := range fv {
				if _, isMC := l.Root.V.(*ssa.MakeClosure); !(isMC && l.Root.Kind == RFresh) {
					closed = false
				}
			}
			if _, isFn := c.Call.Value.(*ssa.Function); isFn {
				closed = true
			}
			if !closed || (len(fv) == 0 && !handled) {
				out.add(Loc{t.root(RExt, c, c.Parent()), ""})
			}
			if handled || len(fv) > 0 {
				return out
			}
		}
	}
	if handled {
		return out
	}
	freshRegion := func() Loc { return Loc{t.root(RFresh, c, c.Parent()), ""} }
	switch {
	case key == "builtin.append":
		out.addAll(t.obj(args[0]))
		out.add(freshRegion())
		return out
	case strings.HasPrefix(key, "builtin."):
		return out
	case key == "dynamic" || strings.HasPrefix(key, "invoke."):
		out.add(Loc{t.root(RExt, c, c.Parent()), ""})
		return out
	case key == "reflect.ValueOf" || key == "reflect.New" || key == "reflect.MakeMap" || key == "reflect.MakeMapWithSize" || key == "reflect.MakeSlice" || key == "reflect.Zero":
		out.add(Loc{t.root(RTemp, c, c.Parent()), ""})
		return out
	case strings.HasPrefix(key, "reflect.Value.") || strings.HasPrefix(key, "reflect.MapIter.") || key == "reflect.Indirect":
		return t.reflectResult(c, strings.TrimPrefix(strings.TrimPrefix(strings.TrimPrefix(key, "reflect.Value."), "reflect.MapIter."), "reflect."), rt)
	case strings.HasPrefix(key, "sync.Map.") || strings.HasPrefix(key, "sync.Pool.") || strings.HasPrefix(key, "sync/atomic.Value.") || strings.HasPrefix(key, "sync/atomic.Pointer."):
		// what a process-wide cache hands out is shared with every other goroutine
		out.add(Loc{t.root(RExt, c, c.Parent()), ""})
		return out
	case returnsFresh[key]:
		out.add(freshRegion())
		return out
	}
	// default for the standard library: a fresh value that may alias any
	// argument of the same type (slices.Grow, bytes.Trim, fmt.Append, ...).
	out.add(freshRegion())
	for _, a := range args {
		if types.Identical(a.Type(), rt) {
			out.addAll(t.obj(a))
		}
	}
	return out
}

func (t *Tracer) reflectResult(c *ssa.Call, m string, rt types.Type) LocSet {
	out := LocSet{}
	args := c.Call.Args
	if len(args) == 0 {
		return out
	}
	recv := t.obj(args[0])
	isHandle := isReflectValue(rt)
	switch m {
	case "Elem", "Indirect":
		for l := range recv {
			out.addAll(t.loadLoc(l))
			if m == "Indirect" {
				out.add(l)
			}
		}
	case "Index":
		for l := range recv {
			out.add(l.plus("[]"))
			for cl := range t.loadLoc(l) {
				out.add(cl.plus("[]"))
			}
		}
	case "MapIndex", "Key", "Value":
		// MapIter.Key/Value and Value.MapIndex: element of the map held in the slot
		for l := range recv {
			for cl := range t.loadLoc(l) {
				out.add(cl.plus("[]"))
			}
			out.add(l.plus("[]"))
		}
	case "Field", "FieldByIndex", "FieldByName", "FieldByNameFunc":
		for l := range recv {
			out.add(l.plus("f:?"))
		}
	case "Interface", "Pointer", "UnsafePointer", "Bytes":
		for l := range recv {
			out.addAll(t.loadLoc(l))
			out.add(l)
		}
	case "MapRange", "Convert", "Addr", "Slice", "Slice3":
		out.addAll(recv)
	case "MapKeys":
		out.add(Loc{t.root(RFresh, c, c.Parent()), ""})
	default:
		if isHandle {
			out.addAll(recv)
			for l := range recv {
				out.addAll(t.loadLoc(l))
			}
		}
	}
	return out
}

// StructField returns the field idx of the struct (or pointer to struct) type tp.
func StructField(tp types.Type, idx int) *types.Var { return structField(tp, idx) }
