package core

import (
	"go/token"
	"go/types"
	"sync"

	"golang.org/x/tools/go/ssa"
)

// CallIndex records, for every function of the package, its static call sites
// and whether it is used as a value (stored, passed, returned, deferred through a
// variable ...), in which case it can be called from places the index does not see.
type CallIndex struct {
	Sites        map[*ssa.Function][]ssa.CallInstruction
	AddressTaken map[*ssa.Function]bool
}

var (
	callIndexMu sync.Mutex
	callIndexes = map[*Prog]*CallIndex{}
)

func (p *Prog) CallIndex() *CallIndex {
	callIndexMu.Lock()
	defer callIndexMu.Unlock()
	if ix, ok := callIndexes[p]; ok {
		return ix
	}
	ix := &CallIndex{Sites: map[*ssa.Function][]ssa.CallInstruction{}, AddressTaken: map[*ssa.Function]bool{}}
	for _, fn := range p.Funcs {
		EachInstr(fn, func(i ssa.Instruction) {
			var calleeVal ssa.Value
			if call, ok := i.(ssa.CallInstruction); ok {
				if callee := call.Common().StaticCallee(); callee != nil {
					ix.Sites[callee] = append(ix.Sites[callee], call)
				}
				if !call.Common().IsInvoke() {
					calleeVal = call.Common().Value
				}
			}
			for _, op := range i.Operands(nil) {
				if op == nil || *op == nil {
					continue
				}
				v := *op
				if v == calleeVal {
					// call position: a closure value called directly is still a static call
					if mc, ok := v.(*ssa.MakeClosure); ok {
						_ = mc
					}
					continue
				}
				switch x := v.(type) {
				case *ssa.Function:
					ix.AddressTaken[x] = true
				case *ssa.MakeClosure:
					// the closure value itself is an operand of something other than a call: it escapes
					if f, ok := x.Fn.(*ssa.Function); ok {
						ix.AddressTaken[f] = true
					}
				}
			}
		})
	}
	callIndexes[p] = ix
	return ix
}

// OnlyStaticCallers reports whether every call of fn is a static call the index
// lists: fn belongs to the package, is not exported (so no outside caller), is not
// a method that could be reached through an interface, and is never used as a value.
func (p *Prog) OnlyStaticCallers(fn *ssa.Function) bool {
	if fn == nil || !p.InPkg(fn) {
		return false
	}
	ix := p.CallIndex()
	if ix.AddressTaken[fn] {
		return false
	}
	if fn.Parent() != nil {
		return true // a closure that never escapes
	}
	if fn.Object() != nil && fn.Object().Exported() {
		// an exported method of an unexported type is still only callable from the package,
		// unless through an interface; keep it simple: exported => outside callers possible
		if fn.Signature.Recv() == nil {
			return false
		}
		if n := recvNamed(fn.Signature.Recv().Type()); n == nil || n.Obj().Exported() {
			return false
		}
	}
	if fn.Signature.Recv() != nil {
		// a method can be called through an interface or a method value; the index sees bound
		// method wrappers as different functions. Accept only if no interface in the package
		// or its dependencies is needed: conservative approximation - methods with the names
		// the standard library calls by reflection or interface are excluded.
		switch fn.Name() {
		case "String", "Error", "MarshalJSON", "UnmarshalJSON", "MarshalText", "UnmarshalText", "Format", "GoString":
			return false
		}
	}
	return len(ix.Sites[fn]) > 0
}

func recvNamed(t types.Type) *types.Named {
	if p, ok := t.(*types.Pointer); ok {
		t = p.Elem()
	}
	n, _ := t.(*types.Named)
	return n
}

// ArgsFor returns, for parameter p of a function with only static callers, the
// argument passed at each call site (nil if the callers are not all known).
func (p *Prog) ArgsFor(param *ssa.Parameter) []ssa.Value {
	fn := param.Parent()
	if !p.OnlyStaticCallers(fn) {
		return nil
	}
	idx := -1
	for k, q := range fn.Params {
		if q == param {
			idx = k
		}
	}
	if idx < 0 {
		return nil
	}
	var out []ssa.Value
	for _, site := range p.CallIndex().Sites[fn] {
		args := site.Common().Args
		if idx < len(args) {
			out = append(out, args[idx])
		}
	}
	return out
}

var _ = token.NoPos
