package core

import (
	_ "embed"
	"encoding/json"
	"go/constant"
	"go/types"
	"regexp"
	"sort"
	"strings"
)

// Rename tolerance.
//
// The rules refer to a handful of unexported types, fields, functions and
// constants of the analysed package by the names they have on the pinned tree
// (resolvedInfo.resolvedRef, annotations.endIndex, draft7 ...). Renaming an
// unexported identifier does not change behaviour, so a rename must not turn
// into an "unresolved anchor". baseline_names.json records the unexported
// declarations of the pinned tree (name, type); on every load the current
// declarations are matched against it: identical names map to themselves, and
// a baseline name that has disappeared is paired with a current declaration
// that is new and has the same type (for several candidates of one type:
// fields in declaration order, constants by value). All lookups by name and
// all names the rules compare go through this map, in the canonical (baseline)
// spelling. A declaration that was removed, or whose type changed, stays
// unmatched and the rules that need it report an unresolved anchor.

//go:embed baseline_names.json
var baselineJSON []byte

type BaselineField struct{ Name, Type string }
type BaselineType struct {
	Name       string
	Underlying string // for non-struct types
	Fields     []BaselineField
}
type BaselineDecl struct {
	Name, Type, Value string
	FP                []string `json:",omitempty"` // functions: fingerprint of the body (standard-library callees, signatures of package callees, fields touched, string constants)
}
type Baseline struct {
	Types   []BaselineType
	Funcs   []BaselineDecl // Name in FuncName format, Type = signature
	Consts  []BaselineDecl
	Globals []BaselineDecl
}

type NameMap struct {
	TypeCanon, TypeCur     map[string]string // current <-> canonical type names
	FieldCanon, FieldCur   map[string]string // "Type.field" (current spelling of both) <-> canonical "Type.field"
	FuncCanon, FuncCur     map[string]string // FuncName format
	ConstCanon, ConstCur   map[string]string
	GlobalCanon, GlobalCur map[string]string
	Renames                []string // human-readable list of the renames that were recognised

	recvCanon, canonT func(string) string
	baseFuncs         []BaselineDecl
}

var names *NameMap // set by Load for the program being analysed

func identity() *NameMap {
	return &NameMap{TypeCanon: map[string]string{}, TypeCur: map[string]string{}, FieldCanon: map[string]string{}, FieldCur: map[string]string{},
		FuncCanon: map[string]string{}, FuncCur: map[string]string{}, ConstCanon: map[string]string{}, ConstCur: map[string]string{}, GlobalCanon: map[string]string{}, GlobalCur: map[string]string{}}
}

func lookup(m map[string]string, k string) string {
	if v, ok := m[k]; ok {
		return v
	}
	return k
}

// CanonType etc. translate between the current spelling and the baseline spelling.
func CanonType(cur string) string {
	if names == nil {
		return cur
	}
	return lookup(names.TypeCanon, cur)
}
func CurType(canon string) string {
	if names == nil {
		return canon
	}
	return lookup(names.TypeCur, canon)
}

// CanonField maps current owner type name and field name to the canonical (owner, field).
func CanonField(curOwner, curField string) (string, string) {
	if names == nil {
		return curOwner, curField
	}
	if v, ok := names.FieldCanon[curOwner+"."+curField]; ok {
		i := strings.Index(v, ".")
		return v[:i], v[i+1:]
	}
	return lookup(names.TypeCanon, curOwner), curField
}
func CurField(canonOwner, canonField string) (string, string) {
	if names == nil {
		return canonOwner, canonField
	}
	if v, ok := names.FieldCur[canonOwner+"."+canonField]; ok {
		i := strings.Index(v, ".")
		return v[:i], v[i+1:]
	}
	return lookup(names.TypeCur, canonOwner), canonField
}
func CanonFunc(cur string) string {
	if names == nil {
		return cur
	}
	return lookup(names.FuncCanon, cur)
}
func CurFunc(canon string) string {
	if names == nil {
		return canon
	}
	return lookup(names.FuncCur, canon)
}
func CanonConst(cur string) string {
	if names == nil {
		return cur
	}
	return lookup(names.ConstCanon, cur)
}
func CurConst(canon string) string {
	if names == nil {
		return canon
	}
	return lookup(names.ConstCur, canon)
}
func CurGlobal(canon string) string {
	if names == nil {
		return canon
	}
	return lookup(names.GlobalCur, canon)
}
func CanonGlobal(cur string) string {
	if names == nil {
		return cur
	}
	return lookup(names.GlobalCanon, cur)
}
func RecognisedRenames() []string {
	if names == nil {
		return nil
	}
	return names.Renames
}

func qualifierFor(pkg *types.Package) types.Qualifier {
	return func(p *types.Package) string {
		if p == pkg {
			return ""
		}
		return p.Path()
	}
}

// funcDeclName: FuncName format for a *types.Func.
func funcDeclName(f *types.Func) string {
	sig := f.Type().(*types.Signature)
	if recv := sig.Recv(); recv != nil {
		t := recv.Type()
		ptr := false
		if pt, ok := t.(*types.Pointer); ok {
			ptr, t = true, pt.Elem()
		}
		n := t.String()
		if nt, ok := types.Unalias(t).(*types.Named); ok {
			n = nt.Obj().Name()
		}
		if ptr {
			return "(*" + n + ")." + f.Name()
		}
		return n + "." + f.Name()
	}
	return f.Name()
}

func sigString(sig *types.Signature, q types.Qualifier) string {
	// parameters and results only (the receiver is part of the name)
	var b strings.Builder
	b.WriteString("func(")
	for i := 0; i < sig.Params().Len(); i++ {
		if i > 0 {
			b.WriteString(", ")
		}
		if sig.Variadic() && i == sig.Params().Len()-1 {
			b.WriteString("...")
		}
		b.WriteString(types.TypeString(sig.Params().At(i).Type(), q))
	}
	b.WriteString(")")
	if sig.Results().Len() > 0 {
		b.WriteString(" (")
		for i := 0; i < sig.Results().Len(); i++ {
			if i > 0 {
				b.WriteString(", ")
			}
			b.WriteString(types.TypeString(sig.Results().At(i).Type(), q))
		}
		b.WriteString(")")
	}
	if sig.TypeParams().Len() > 0 {
		b.WriteString(" [generic]")
	}
	return b.String()
}

// Snapshot lists the unexported declarations of pkg in baseline form.
func Snapshot(pkg *types.Package) *Baseline {
	q := qualifierFor(pkg)
	b := &Baseline{}
	scope := pkg.Scope()
	for _, name := range scope.Names() {
		obj := scope.Lookup(name)
		switch o := obj.(type) {
		case *types.TypeName:
			nt, ok := o.Type().(*types.Named)
			if ok {
				// methods (of exported and unexported types alike; only the unexported ones can be renamed freely)
				for i := 0; i < nt.NumMethods(); i++ {
					m := nt.Method(i)
					if !m.Exported() || !o.Exported() {
						b.Funcs = append(b.Funcs, BaselineDecl{Name: funcDeclName(m), Type: sigString(m.Type().(*types.Signature), q)})
					}
				}
			}
			bt := BaselineType{Name: name}
			if st, ok := o.Type().Underlying().(*types.Struct); ok {
				for i := 0; i < st.NumFields(); i++ {
					f := st.Field(i)
					if f.Exported() && o.Exported() {
						continue // exported API: cannot be renamed
					}
					bt.Fields = append(bt.Fields, BaselineField{f.Name(), types.TypeString(f.Type(), q)})
				}
				if o.Exported() && len(bt.Fields) == 0 {
					continue
				}
			} else {
				if o.Exported() {
					continue
				}
				bt.Underlying = types.TypeString(o.Type().Underlying(), q)
			}
			b.Types = append(b.Types, bt)
		case *types.Func:
			if !o.Exported() {
				b.Funcs = append(b.Funcs, BaselineDecl{Name: name, Type: sigString(o.Type().(*types.Signature), q)})
			}
		case *types.Const:
			if !o.Exported() {
				b.Consts = append(b.Consts, BaselineDecl{Name: name, Type: types.TypeString(o.Type(), q), Value: o.Val().ExactString()})
			}
		case *types.Var:
			if !o.Exported() {
				b.Globals = append(b.Globals, BaselineDecl{Name: name, Type: types.TypeString(o.Type(), q)})
			}
		}
	}
	sort.Slice(b.Funcs, func(i, j int) bool { return b.Funcs[i].Name < b.Funcs[j].Name })
	return b
}

var identRE = regexp.MustCompile(`[A-Za-z_][A-Za-z0-9_]*`)

// rewriteIdents replaces whole identifiers of a type string according to m; identifiers in unknown are replaced by "?".
func rewriteIdents(s string, m map[string]string, unknown map[string]bool) string {
	return identRE.ReplaceAllStringFunc(s, func(id string) string {
		if v, ok := m[id]; ok {
			return v
		}
		if unknown[id] {
			return "?"
		}
		return id
	})
}

// matchNames pairs the current declarations with the baseline.
func matchNames(pkg *types.Package) *NameMap {
	nm := identity()
	var base Baseline
	if err := json.Unmarshal(baselineJSON, &base); err != nil || len(base.Types) == 0 {
		return nm
	}
	cur := Snapshot(pkg)
	// ---- types
	baseTypes, curTypes := map[string]BaselineType{}, map[string]BaselineType{}
	for _, t := range base.Types {
		baseTypes[t.Name] = t
	}
	for _, t := range cur.Types {
		curTypes[t.Name] = t
	}
	missing, fresh := map[string]bool{}, map[string]bool{}
	for n := range baseTypes {
		if _, ok := curTypes[n]; !ok {
			missing[n] = true
		}
	}
	for n := range curTypes {
		if _, ok := baseTypes[n]; !ok {
			fresh[n] = true
		}
	}
	shape := func(t BaselineType, unknown map[string]bool, m map[string]string) string {
		if t.Fields == nil {
			return "U:" + rewriteIdents(t.Underlying, m, unknown)
		}
		var fs []string
		for _, f := range t.Fields {
			fs = append(fs, rewriteIdents(f.Type, m, unknown))
		}
		sort.Strings(fs)
		return "S:" + strings.Join(fs, ";")
	}
	// to a fixed point: pairing one type can make the shapes of others comparable
	for changed := true; changed; {
		changed = false
		for _, bn := range sortedKeys(missing) {
			var cands []string
			for _, cn := range sortedKeys(fresh) {
				if shape(baseTypes[bn], missing, nil) == shape(curTypes[cn], fresh, nm.TypeCanon) {
					cands = append(cands, cn)
				}
			}
			if len(cands) == 1 {
				nm.TypeCanon[cands[0]], nm.TypeCur[bn] = bn, cands[0]
				nm.Renames = append(nm.Renames, "type "+bn+" -> "+cands[0])
				delete(fresh, cands[0])
				delete(missing, bn)
				changed = true
			}
		}
	}
	canonT := func(s string) string { return rewriteIdents(s, nm.TypeCanon, nil) }
	// ---- fields
	for bn, bt := range baseTypes {
		ct, ok := curTypes[lookup(nm.TypeCur, bn)]
		if !ok || bt.Fields == nil {
			continue
		}
		curByName := map[string]BaselineField{}
		for _, f := range ct.Fields {
			curByName[f.Name] = f
		}
		baseByName := map[string]bool{}
		for _, f := range bt.Fields {
			baseByName[f.Name] = true
		}
		var missF []BaselineField
		for _, f := range bt.Fields {
			if _, ok := curByName[f.Name]; !ok {
				missF = append(missF, f)
			}
		}
		var freshF []BaselineField
		for _, f := range ct.Fields {
			if !baseByName[f.Name] {
				freshF = append(freshF, f)
			}
		}
		used := map[int]bool{}
		for _, mf := range missF {
			for k, ff := range freshF {
				if !used[k] && canonT(ff.Type) == mf.Type {
					used[k] = true
					nm.FieldCanon[ct.Name+"."+ff.Name] = bn + "." + mf.Name
					nm.FieldCur[bn+"."+mf.Name] = ct.Name + "." + ff.Name
					nm.Renames = append(nm.Renames, "field "+bn+"."+mf.Name+" -> "+ct.Name+"."+ff.Name)
					break
				}
			}
		}
		// one field left over on each side: the same field with a new name and a new type (a bool that became a small enum)
		var restM []BaselineField
		for _, mf := range missF {
			if _, ok := nm.FieldCur[bn+"."+mf.Name]; !ok {
				restM = append(restM, mf)
			}
		}
		var restF []BaselineField
		for k, ff := range freshF {
			if !used[k] {
				restF = append(restF, ff)
			}
		}
		// several fields moved together into a new nested struct: struct{ a A; b B } -> struct{ g G } with G struct{ x A; y B }
		if len(restM) >= 2 {
			for _, ff := range restF {
				ut, ok := curTypes[ff.Type]
				if !ok || !fresh[ff.Type] || ut.Fields == nil || len(ut.Fields) > len(restM) {
					continue
				}
				usedM := map[int]bool{}
				pairs := map[int]int{}
				for ui, uf := range ut.Fields {
					for mi, mf := range restM {
						if !usedM[mi] && canonT(uf.Type) == mf.Type {
							usedM[mi] = true
							pairs[ui] = mi
							break
						}
					}
				}
				if len(pairs) != len(ut.Fields) {
					continue
				}
				for ui, mi := range pairs {
					nm.FieldCanon[ut.Name+"."+ut.Fields[ui].Name] = bn + "." + restM[mi].Name
					nm.FieldCur[bn+"."+restM[mi].Name] = ut.Name + "." + ut.Fields[ui].Name
					nm.Renames = append(nm.Renames, "field "+bn+"."+restM[mi].Name+" -> "+ct.Name+"."+ff.Name+"."+ut.Fields[ui].Name+" (moved into a nested struct)")
				}
				delete(fresh, ff.Type)
				var rest2 []BaselineField
				for mi, mf := range restM {
					if !usedM[mi] {
						rest2 = append(rest2, mf)
					}
				}
				restM = rest2
				var restF2 []BaselineField
				for _, f2 := range restF {
					if f2.Name != ff.Name {
						restF2 = append(restF2, f2)
					}
				}
				restF = restF2
				break
			}
		}
		if len(restM) == 1 && len(restF) == 1 {
			nm.FieldCanon[ct.Name+"."+restF[0].Name] = bn + "." + restM[0].Name
			nm.FieldCur[bn+"."+restM[0].Name] = ct.Name + "." + restF[0].Name
			nm.Renames = append(nm.Renames, "field "+bn+"."+restM[0].Name+" -> "+ct.Name+"."+restF[0].Name+" (type changed)")
		}
		// fields that kept their name but whose owner was renamed
		if ct.Name != bn {
			for _, f := range ct.Fields {
				if baseByName[f.Name] {
					nm.FieldCanon[ct.Name+"."+f.Name] = bn + "." + f.Name
					nm.FieldCur[bn+"."+f.Name] = ct.Name + "." + f.Name
				}
			}
		}
	}
	// ---- functions, constants, globals
	pair := func(baseDecls, curDecls []BaselineDecl, canonName func(string) string, kind string, canonM, curM map[string]string, byValue bool) {
		curBy, baseBy := map[string]BaselineDecl{}, map[string]BaselineDecl{}
		for _, d := range curDecls {
			curBy[canonName(d.Name)] = d
		}
		for _, d := range baseDecls {
			baseBy[d.Name] = d
		}
		var missD, freshD []BaselineDecl
		for _, d := range baseDecls {
			if _, ok := curBy[d.Name]; !ok {
				missD = append(missD, d)
			}
		}
		for _, d := range curDecls {
			if _, ok := baseBy[canonName(d.Name)]; !ok {
				freshD = append(freshD, d)
			}
		}
		// declarations whose only difference is a renamed receiver type
		for _, d := range curDecls {
			if cn := canonName(d.Name); cn != d.Name {
				if _, ok := baseBy[cn]; ok {
					canonM[d.Name], curM[cn] = cn, d.Name
				}
			}
		}
		for _, md := range missD {
			var cands []BaselineDecl
			for _, fd := range freshD {
				if _, taken := canonM[fd.Name]; taken {
					continue
				}
				if canonT(fd.Type) != md.Type || recvPart(canonName(fd.Name)) != recvPart(md.Name) {
					continue
				}
				if byValue && fd.Value != md.Value {
					continue
				}
				cands = append(cands, fd)
			}
			if len(cands) == 1 {
				canonM[cands[0].Name], curM[md.Name] = md.Name, cands[0].Name
				nm.Renames = append(nm.Renames, kind+" "+md.Name+" -> "+cands[0].Name)
			}
		}
	}
	recvCanon := func(n string) string {
		// "(*T).m" / "T.m": canonicalise T
		if i := strings.LastIndex(n, "."); i >= 0 {
			recv, m := n[:i], n[i+1:]
			return rewriteIdents(recv, nm.TypeCanon, nil) + "." + m
		}
		return n
	}
	nm.recvCanon, nm.canonT, nm.baseFuncs = recvCanon, canonT, base.Funcs
	pair(base.Consts, cur.Consts, func(s string) string { return s }, "const", nm.ConstCanon, nm.ConstCur, true)
	pair(base.Globals, cur.Globals, func(s string) string { return s }, "var", nm.GlobalCanon, nm.GlobalCur, false)
	sort.Strings(nm.Renames)
	return nm
}

func recvPart(n string) string {
	if i := strings.LastIndex(n, "."); i >= 0 {
		return n[:i]
	}
	return ""
}

func sortedKeys(m map[string]bool) []string {
	var out []string
	for k := range m {
		out = append(out, k)
	}
	sort.Strings(out)
	return out
}

var _ = constant.MakeBool

var curPkg *types.Package // the analysed package of the program loaded last

// CanonFieldOf returns the canonical name of field idx of struct type t (or pointer to it):
// the baseline spelling for an unexported field of the analysed package that was renamed.
func CanonFieldOf(t types.Type, idx int) string {
	f := StructField(t, idx)
	if f == nil {
		return ""
	}
	for {
		if p, ok := t.Underlying().(*types.Pointer); ok {
			t = p.Elem()
			continue
		}
		break
	}
	if n, ok := types.Unalias(t).(*types.Named); ok && n.Obj().Pkg() == curPkg && curPkg != nil {
		_, cf := CanonField(n.Obj().Name(), f.Name())
		return cf
	}
	return f.Name()
}

// CanonFieldVar: canonical name of a field given its (canonical) owner type name.
func CanonFieldVar(canonOwner string, f *types.Var) string {
	_, cf := CanonField(CurType(canonOwner), f.Name())
	if names != nil && cf == f.Name() {
		// a field moved into a nested struct: its current owner is that struct
		for k, v := range names.FieldCanon {
			if strings.HasPrefix(v, canonOwner+".") && strings.HasSuffix(k, "."+f.Name()) && !strings.HasPrefix(k, CurType(canonOwner)+".") {
				return v[len(canonOwner)+1:]
			}
		}
	}
	return cf
}

// matchFuncs pairs renamed functions once their bodies are available (after SSA construction):
// a baseline function that has disappeared is paired with a new function of the same receiver and
// signature whose body fingerprint is closest (Jaccard similarity), provided it is similar enough.
func matchFuncs(p *Prog) {
	nm := names
	if nm == nil || nm.baseFuncs == nil {
		return
	}
	cur := SnapshotFuncs(p)
	curBy, baseBy := map[string]BaselineDecl{}, map[string]BaselineDecl{}
	for _, d := range cur {
		curBy[nm.recvCanon(d.Name)] = d
	}
	for _, d := range nm.baseFuncs {
		baseBy[d.Name] = d
	}
	var missD, freshD []BaselineDecl
	for _, d := range nm.baseFuncs {
		if _, ok := curBy[d.Name]; !ok {
			missD = append(missD, d)
		}
	}
	for _, d := range cur {
		cn := nm.recvCanon(d.Name)
		if _, ok := baseBy[cn]; !ok {
			freshD = append(freshD, d)
		} else if cn != d.Name {
			nm.FuncCanon[d.Name], nm.FuncCur[cn] = cn, d.Name // only the receiver type was renamed
		}
	}
	type cand struct {
		m, f int
		sim  float64
	}
	var cands []cand
	for mi, md := range missD {
		for fi, fd := range freshD {
			if nm.canonT(fd.Type) != md.Type || recvPart(nm.recvCanon(fd.Name)) != recvPart(md.Name) {
				continue
			}
			cands = append(cands, cand{mi, fi, jaccard(md.FP, fd.FP)})
		}
	}
	sort.Slice(cands, func(i, j int) bool {
		if cands[i].sim != cands[j].sim {
			return cands[i].sim > cands[j].sim
		}
		if cands[i].m != cands[j].m {
			return cands[i].m < cands[j].m
		}
		return cands[i].f < cands[j].f
	})
	usedM, usedF := map[int]bool{}, map[int]bool{}
	for _, c := range cands {
		if usedM[c.m] || usedF[c.f] || c.sim < 0.5 {
			continue
		}
		usedM[c.m], usedF[c.f] = true, true
		md, fd := missD[c.m], freshD[c.f]
		nm.FuncCanon[fd.Name], nm.FuncCur[md.Name] = md.Name, fd.Name
		nm.Renames = append(nm.Renames, "func "+md.Name+" -> "+fd.Name)
	}
	// second pass: a function moved to another receiver (or between function and method) keeping its name and body
	short := func(n string) string {
		if i := strings.LastIndex(n, "."); i >= 0 {
			return n[i+1:]
		}
		return n
	}
	for mi, md := range missD {
		if usedM[mi] {
			continue
		}
		best, bestSim := -1, 0.0
		for fi, fd := range freshD {
			if usedF[fi] || short(fd.Name) != short(md.Name) {
				continue
			}
			if sim := jaccard(md.FP, fd.FP); sim > bestSim {
				best, bestSim = fi, sim
			}
		}
		if best >= 0 && bestSim >= 0.6 {
			usedM[mi], usedF[best] = true, true
			fd := freshD[best]
			nm.FuncCanon[fd.Name], nm.FuncCur[md.Name] = md.Name, fd.Name
			nm.Renames = append(nm.Renames, "func "+md.Name+" -> "+fd.Name+" (moved)")
		}
	}
	sort.Strings(nm.Renames)
}

func jaccard(a, b []string) float64 {
	if len(a) == 0 && len(b) == 0 {
		return 1
	}
	sa := map[string]bool{}
	for _, x := range a {
		sa[x] = true
	}
	inter, union := 0, len(sa)
	seen := map[string]bool{}
	for _, x := range b {
		if seen[x] {
			continue
		}
		seen[x] = true
		if sa[x] {
			inter++
		} else {
			union++
		}
	}
	if union == 0 {
		return 1
	}
	return float64(inter) / float64(union)
}

var baselineFields map[string]bool

// InBaselineField: "Type.field" (canonical spelling) is an unexported field of the pinned tree.
func InBaselineField(key string) bool {
	if baselineFields == nil {
		baselineFields = map[string]bool{}
		var base Baseline
		if json.Unmarshal(baselineJSON, &base) == nil {
			for _, t := range base.Types {
				for _, f := range t.Fields {
					baselineFields[t.Name+"."+f.Name] = true
				}
			}
		}
	}
	return baselineFields[key]
}
