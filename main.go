package main

import (
	"encoding/json"
	"fmt"
	"net/url"

	"github.com/google/jsonschema-go/jsonschema"
)

func mustSchema(s string) *jsonschema.Schema {
	var sc jsonschema.Schema
	if err := json.Unmarshal([]byte(s), &sc); err != nil {
		panic(err)
	}
	return &sc
}

func try(name string, f func()) {
	defer func() {
		if r := recover(); r != nil {
			fmt.Printf("%s: PANIC %v\n", name, r)
		}
	}()
	f()
}

func main() {
	try("D1", func() {
		root := mustSchema(`{"$schema":"http://json-schema.org/draft-07/schema#","properties":{"a":{"$ref":"http://x/r.json#foo"}}}`)
		_, err := root.Resolve(&jsonschema.ResolveOptions{Loader: func(u *url.URL) (*jsonschema.Schema, error) {
			return mustSchema(`{"definitions":{"d":{"$id":"#foo","type":"integer"}}}`), nil
		}})
		fmt.Println("D1 err:", err)
	})
	try("D2", func() {
		docs := map[string]string{
			"http://x/a.json": `{"$anchor":"top","properties":{"q":{"$ref":"b.json"}}}`,
			"http://x/b.json": `{"properties":{"r":{"$ref":"a.json#top"}}}`,
		}
		root := mustSchema(`{"$id":"http://x/root.json","$ref":"a.json"}`)
		rs, err := root.Resolve(&jsonschema.ResolveOptions{Loader: func(u *url.URL) (*jsonschema.Schema, error) {
			return mustSchema(docs[u.String()]), nil
		}})
		fmt.Println("D2 err:", err)
		if rs != nil {
			fmt.Println("D2 validate:", rs.Validate(map[string]any{"q": map[string]any{"r": map[string]any{"q": 1}}}))
		}
	})
	try("D3", func() {
		root := mustSchema(`{"$ref":"http://x/a.json"}`)
		_, err := root.Resolve(&jsonschema.ResolveOptions{Loader: func(u *url.URL) (*jsonschema.Schema, error) { return nil, nil }})
		fmt.Println("D3 err:", err)
	})
	type K string
	try("D6a", func() {
		rs, _ := mustSchema(`{"properties":{"a":{"type":"integer"}},"required":["a"]}`).Resolve(nil)
		fmt.Println("D6a:", rs.Validate(map[K]any{"a": 1}))
	})
	try("D6b", func() {
		rs, _ := mustSchema(`{"properties":{"a":{"default":3},"b":{"properties":{"c":{"default":1}}}}}`).Resolve(nil)
		m := map[K]any{}
		fmt.Println("D6b:", rs.ApplyDefaults(&m), m)
	})
	try("D6c", func() {
		fmt.Println("D6c:", jsonschema.Equal(map[K]any{"a": 1}, map[string]any{"a": 1.0}), jsonschema.Equal(map[string]any{"a": 1}, map[K]any{"a": 1.0}))
	})
	try("D7", func() {
		rn, _ := mustSchema(`{"type":"number"}`).Resolve(nil)
		ri, _ := mustSchema(`{"type":"integer"}`).Resolve(nil)
		rstr, _ := mustSchema(`{"type":"string"}`).Resolve(nil)
		rml, _ := mustSchema(`{"maxLength":1}`).Resolve(nil)
		fmt.Println("D7 number:", rn.Validate(json.Number("12")), "| integer:", ri.Validate(json.Number("12")), "| integer(1.5):", ri.Validate(json.Number("1.5")), "| string:", rstr.Validate(json.Number("12")), "| maxLength:", rml.Validate(json.Number("12")))
		fmt.Println("D7 equal num/string:", jsonschema.Equal(json.Number("1"), "1"))
	})
	try("D10", func() {
		one := 1
		fmt.Println("D10:", jsonschema.Equal([]any{1.0}, []float64{1}), jsonschema.Equal(&one, 1), jsonschema.Equal([1]int{1}, []int{1}), jsonschema.Equal([]any{[]any{1}}, []any{[]int{1}}))
		r, _ := mustSchema(`{"enum":[[1]]}`).Resolve(nil)
		fmt.Println("D10 enum:", r.Validate([]int{1}))
		u, _ := mustSchema(`{"uniqueItems":true}`).Resolve(nil)
		fmt.Println("D10 unique:", u.Validate([]any{[]any{1.0}, []float64{1}}))
	})
	try("D4", func() {
		var s jsonschema.Schema
		fmt.Println("D4 MINLENGTH:", json.Unmarshal([]byte(`{"MINLENGTH":"x"}`), &s))
		r, _ := mustSchema(`{"TYPE":"string"}`).Resolve(nil)
		fmt.Println("D4 TYPE:", r.Validate(1))
		r, _ = mustSchema(`{"Properties":{"a":false}}`).Resolve(nil)
		fmt.Println("D4 Properties:", r.Validate(map[string]any{"a": 1}))
	})
	try("D5", func() {
		for _, s := range []*jsonschema.Schema{{Enum: []any{}}, {AnyOf: []*jsonschema.Schema{}}, {OneOf: []*jsonschema.Schema{}}} {
			b, err := json.Marshal(s)
			fmt.Println("D5:", string(b), err)
		}
	})
}
